"""Reference grammar of C03, written from the property statement and the documented grammar
(parser.py docstring / parser.md), independent of the parser's code:

    Equal   := Add ('=' Add)*                      left to right
    Add     := Mult (('+'|'-') Mult)*              left to right
    Mult    := Exp (('*'|'/') Exp)*                left to right
    Exp     := Unary ('^' Unary)?
    Unary   := '-' Const '!'  |  '-' Const Factors?  |  '-' Factors
             |  Const '!'     |  Const Factors?      |  Factors
               (a minus sign directly before a literal makes a negative literal)
    Factors := Atom+ ('^' Unary)?                  the exponent binds to the LAST atom only
    Atom    := Var | Fn '(' Add ')' | '(' Add ')'

Works on token *types*; leaves are referred to by their token index.  Trees are nested tuples:
('c', i, sign) constant from token i (sign -1 for a negative literal), ('v', i), ('neg', t),
('fact', t), ('fn', t), (op, l, r) with op in '+-*/^='.
`mult_assoc='right'` gives the variant that folds a multiplicative chain from the right (the
documented *defect* of the pinned parser, used only to recognise that known finding).
"""
from __future__ import annotations

from typing import List, Optional, Tuple

FIRST_ATOM = ("Variable", "Function", "OpenParen")


class Spec:
    def __init__(self, types: List[str], mult_assoc="left"):
        self.t = types + ["EOF"]
        self.p = 0
        self.mult_assoc = mult_assoc

    def peek(self):
        return self.t[self.p]

    def eat(self, ty):
        if self.t[self.p] != ty:
            raise SyntaxError(ty)
        self.p += 1

    def parse(self):
        if self.peek() == "EOF":
            raise SyntaxError("empty")
        e = self.equal()
        if self.peek() != "EOF":
            raise SyntaxError("trailing")
        return e

    def equal(self):
        e = self.add()
        while self.peek() == "Equal":
            self.p += 1
            e = ("=", e, self.add())
        return e

    def add(self):
        e = self.mult()
        while self.peek() in ("Plus", "Minus"):
            op = "+" if self.peek() == "Plus" else "-"
            self.p += 1
            e = (op, e, self.mult())
        return e

    def mult(self):
        items = [self.exp()]
        ops = []
        while self.peek() in ("Multiply", "Divide"):
            ops.append("*" if self.peek() == "Multiply" else "/")
            self.p += 1
            items.append(self.exp())
        if self.mult_assoc == "left":
            e = items[0]
            for op, x in zip(ops, items[1:]):
                e = (op, e, x)
            return e
        e = items[-1]
        for op, x in zip(reversed(ops), reversed(items[:-1])):
            e = (op, x, e)
        return e

    def exp(self):
        e = self.unary()
        if self.peek() == "Exponent":
            self.p += 1
            e = ("^", e, self.unary())
        return e

    def unary(self):
        neg = False
        if self.peek() == "Minus":
            self.p += 1
            neg = True
        if self.peek() == "Constant":
            c = ("c", self.p, -1 if neg else 1)
            self.p += 1
            if self.peek() == "Factorial":
                self.p += 1
                return ("fact", c)
            if self.peek() in FIRST_ATOM:
                return ("*", c, self.factors())
            return c
        if self.peek() in FIRST_ATOM:
            f = self.factors()
            return ("neg", f) if neg else f
        raise SyntaxError("unary")

    def factors(self):
        atoms = []
        while self.peek() in FIRST_ATOM:
            atoms.append(self.atom())
        if not atoms:
            raise SyntaxError("factors")
        if self.peek() == "Exponent":
            self.p += 1
            atoms[-1] = ("^", atoms[-1], self.unary())
        e = atoms[0]
        for a in atoms[1:]:
            e = ("*", e, a)
        return e

    def atom(self):
        ty = self.peek()
        if ty == "Variable":
            self.p += 1
            return ("v", self.p - 1)
        if ty == "Function":
            self.p += 1
            self.eat("OpenParen")
            e = self.add()
            self.eat("CloseParen")
            return ("fn", e)
        if ty == "OpenParen":
            self.p += 1
            e = self.add()
            self.eat("CloseParen")
            return e
        raise SyntaxError("atom")


def spec_parse(types: List[str], mult_assoc="left") -> Optional[Tuple]:
    try:
        return Spec(list(types), mult_assoc).parse()
    except SyntaxError:
        return None


def has_division_chain(t) -> bool:
    """Does the (left-associated) tree contain (a / b) * c or (a / b) / c, i.e. a multiplicative
    chain whose '/' is not its last operator - the inputs on which right-folding differs."""
    if not isinstance(t, tuple):
        return False
    if t[0] in ("*", "/") and isinstance(t[1], tuple) and t[1][0] == "/":
        return True
    return any(has_division_chain(x) for x in t[1:] if isinstance(x, tuple))
