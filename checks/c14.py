"""C14: traversals and look-ups.

* visit_preorder / visit_inorder / visit_postorder: structural induction - the body is executed on a
  symbolic node whose children are lazily None / subtree; the recursive calls are replaced by the
  contract being proved (for a smaller tree); the visitor is an arbitrary function (every call may or
  may not return STOP).
* to_list / find_type / find_id: the closure passed to the traversal is executed as one step of a
  fold over the traversal's sequence (the traversal itself is replaced by its contract).
* get_root / get_root_side: loop invariant (ancestor-or-self) - init, preservation, exit.
* get_side / get_sibling / get_children / is_leaf: loop-free, all paths against the link structure.
"""
from __future__ import annotations

import ast
import json
from typing import Any, Dict, List

import z3

from pyvc.explore import explore
from pyvc.interp import Builtin, ClassVal, Env, Interp, PathState
from pyvc.treeheap import LinksHeap
from pyvc.values import IdStr, ListObj, Num, Obj, OutOfSubset, PyRaise

from .common import REPO, Result, run_venv, tierb_json

NODE_KINDS = ("BinaryTreeNode", "AddExpression", "NegateExpression", "ConstantExpression", "VariableExpression")
ORDERS = {"visit_preorder": "pre", "visit_inorder": "in", "visit_postorder": "post"}


def _same_int(ps, a, b) -> bool:
    from pyvc.values import zarith

    r = z3.simplify(zarith(a) == zarith(b))
    return z3.is_true(r)


# ------------------------------------------------------------------ traversal by structural induction
def traversal_path(I: Interp, ps: PathState, meth: str) -> Dict[str, Any]:
    I.ps = ps
    I.call_depth = 0
    heap = LinksHeap(I, kinds=NODE_KINDS)
    node = heap.new_input("self")
    d0 = Num(z3.Int("depth0"))
    data = I.new_obj(["object"], label="data")
    log: List[Any] = []
    obl: List[Dict[str, Any]] = []
    f = I.get_func("mathy_core.tree", f"BinaryTreeNode.{meth}")

    def ob(clause, ok, detail=""):
        obl.append({"clause": f"{meth}/{clause}", "ok": bool(ok), "detail": detail})

    def visitor_fn(I2, args, kw):
        n, d, dt = args
        log.append(("call", n.oid if isinstance(n, Obj) else None, d, dt is data))
        c = ps.choose(2, "visitor-stops")
        return "stop" if c == 1 else None

    visitor = Builtin("visit_fn", visitor_fn)

    def contract(I2, args, kw, fv):
        # induction hypothesis for a strictly smaller tree (a child of `self`)
        me = args[0]
        ob("pre-of-callee/same-traversal", fv.qual == f"BinaryTreeNode.{meth}", f"recursive call to {fv.qual}")
        fn = args[1] if len(args) > 1 else kw.get("visit_fn")
        dep = args[2] if len(args) > 2 else kw.get("depth", 0)
        dt = args[3] if len(args) > 3 else kw.get("data")
        ob("pre-of-callee/child", isinstance(me, Obj) and me.init.get("parent") is node, f"recursive call on {me}")
        ob("pre-of-callee/same-visitor", fn is visitor, repr(fn))
        ob("pre-of-callee/same-data", dt is data, repr(dt))
        ob("pre-of-callee/depth+1", _same_int(ps, dep, Num(d0.v + 1)), f"depth argument {dep}")
        c = ps.choose(2, "subtree-stops")
        log.append(("prefix" if c == 1 else "seq", me.oid if isinstance(me, Obj) else None))
        return "stop" if c == 1 else None

    saved = dict(I.contracts)
    for m in ORDERS:
        I.contracts[f"BinaryTreeNode.{m}"] = contract
    try:
        try:
            ret = I.call_function(f, [node, visitor, d0, data], {}, use_contract=False)
        except PyRaise as pr:
            ob("no-raise", False, f"raised {pr.exc.clsname} at {pr.site}")
            return {"obligations": obl, "labels": list(ps.labels)}
    finally:
        I.contracts = saved
    # expected defining sequence over the materialised children
    left = node.init.get("left", "unread")
    right = node.init.get("right", "unread")
    order = ORDERS[meth]
    exp: List[Any] = []
    me = ("call", node.oid)
    parts = {"L": ("seq", left.oid) if isinstance(left, Obj) else None, "R": ("seq", right.oid) if isinstance(right, Obj) else None}
    seq = {"pre": ["me", "L", "R"], "in": ["L", "me", "R"], "post": ["L", "R", "me"]}[order]
    for s in seq:
        if s == "me":
            exp.append(me)
        elif parts[s] is not None:
            exp.append(parts[s])
    # compare: the log must be a prefix of exp that ends exactly at the first stop
    stopped = False
    ok = True
    detail = ""
    i = 0
    for ev in log:
        if stopped:
            ok, detail = False, f"event {ev} after a stop"
            break
        if i >= len(exp):
            ok, detail = False, f"extra event {ev}"
            break
        e = exp[i]
        if ev[0] == "call":
            if e != ("call", ev[1]):
                ok, detail = False, f"expected {e} got {ev}"
                break
            if not _same_int(ps, ev[2], d0):
                ok, detail = False, f"visitor called with depth {ev[2]}"
                break
            if not ev[3]:
                ok, detail = False, "visitor called with wrong data"
                break
        else:
            if e != ("seq", ev[1]):
                ok, detail = False, f"expected {e} got {ev}"
                break
            if ev[0] == "prefix":
                stopped = True
        i += 1
    # a visitor call that returned stop
    vis_stop = any(l.startswith("visitor-stops=1") for l in ps.labels)
    stopped = stopped or vis_stop
    if ok and not stopped and i != len(exp):
        ok, detail = False, f"sequence incomplete: {log} vs {exp}"
    if ok and stopped:
        # nothing may follow the stopping event: it must be the last one in the log
        last = log[-1] if log else None
        if last is None or not (last[0] == "prefix" or (last[0] == "call" and vis_stop)):
            ok, detail = False, "stop was not the last event"
    # unread children: the code must have looked at both slots unless it stopped earlier
    if ok and not stopped and ("unread" in (left, right)):
        ok, detail = False, "a child slot was never examined"
    ob("sequence-is-defining-order-prefix", ok, detail + f" log={log} exp={exp}")
    ob("returns-STOP-iff-stopped", (ret == "stop") == stopped, f"ret={ret!r} stopped={stopped}")
    ob("pure", not [w for w in ps.writes if isinstance(w[0], Obj) and w[0].lazy], "traversal wrote to the tree")
    return {"obligations": obl, "labels": list(ps.labels), "stopped": stopped}


# ------------------------------------------------------------------ closures as fold steps
def closure_step_path(I: Interp, ps: PathState, fname: str) -> Dict[str, Any]:
    """to_list / find_type / find_id: run the function with the traversal replaced by a recorder,
    then run the recorded closure for one arbitrary node on an arbitrary accumulator state."""
    I.ps = ps
    I.call_depth = 0
    heap = LinksHeap(I, kinds=NODE_KINDS)
    recv = heap.new_input("self")
    obl: List[Dict[str, Any]] = []
    rec: Dict[str, Any] = {}

    def ob(clause, ok, detail=""):
        obl.append({"clause": f"{fname}/{clause}", "ok": bool(ok), "detail": detail})

    def recorder(which):
        def c(I2, args, kw, fv):
            rec["which"] = which
            rec["self"] = args[0]
            rec["fn"] = args[1] if len(args) > 1 else kw.get("visit_fn")
            rec["extra"] = (args[2:], kw)
            return None

        return c

    saved = dict(I.contracts)
    for m in ORDERS:
        I.contracts[f"BinaryTreeNode.{m}"] = recorder(m)
    f = I.get_func("mathy_core.expressions", f"MathExpression.{fname}")
    try:
        if fname == "to_list":
            order = ["preorder", "inorder", "postorder", "bogus"][ps.choose(4, "order")]
            args = [recv, order]
        elif fname == "find_type":
            args = [recv, ClassVal(I.classes["AddExpression"])]
        else:
            target_id = IdStr(z3.Int("target_id"))
            args = [recv, target_id]
        try:
            ret = I.call_function(f, args, {}, use_contract=False)
        except PyRaise as pr:
            if fname == "to_list" and args[1] == "bogus" and pr.exc.clsname == "ValueError":
                ob("invalid-order-raises-ValueError", True)
            else:
                ob("no-raise", False, f"raised {pr.exc.clsname} at {pr.site}")
            return {"obligations": obl, "labels": list(ps.labels)}
        if fname == "to_list" and args[1] == "bogus":
            ob("invalid-order-raises-ValueError", False, "no exception")
            return {"obligations": obl, "labels": list(ps.labels)}
        want = {"to_list": {"preorder": "visit_preorder", "inorder": "visit_inorder", "postorder": "visit_postorder"}.get(args[1] if fname == "to_list" else "", None),
                "find_type": "visit_inorder", "find_id": "visit_inorder"}[fname]
        ob("traverses-whole-receiver-in-right-order", rec.get("which") == want and rec.get("self") is recv, f"{rec.get('which')} on {rec.get('self')}")
        ob("no-depth-or-data-override", rec.get("extra") in (((), {}), ([], {})) or (not rec["extra"][0] and not rec["extra"][1]), str(rec.get("extra")))
        fn = rec.get("fn")
        # the accumulator before the traversal: empty list / None
        if fname in ("to_list", "find_type"):
            ob("initial-accumulator-empty", isinstance(ret, ListObj) and ret.items == [], repr(ret))
            acc = ret
            marker = I.new_obj(["object"], label="prefix")
            acc.items[:] = [marker]
            n = heap.new_input("visited")
            depth = Num(z3.Int("d"))
            r = I.call(fn, [n, depth, None], {})
            if fname == "to_list":
                ob("step/appends-node", acc.items == [marker, n], repr(acc.items))
            else:
                isadd = n.kinds <= frozenset(["AddExpression"])
                notadd = not (n.kinds & frozenset(["AddExpression"]))
                if isadd:
                    ob("step/appends-instance", acc.items == [marker, n], repr(acc.items))
                elif notadd:
                    ob("step/skips-non-instance", acc.items == [marker], repr(acc.items))
                else:
                    ob("step/kind-decided", False, "isinstance did not decide the kind")
            ob("step/never-stops", r is None, repr(r))
        else:
            ob("initial-result-none", ret is None, repr(ret))
            # step on an arbitrary node while nothing has been found yet
            n = heap.new_input("visited")
            r = I.call(fn, [n, Num(z3.Int("d")), None], {})
            # re-run the tail of the function: the closure's cell holds the result
            cell = fn.env.lookup("result") if hasattr(fn, "env") else None
            same = I.eq(I.getattr(n, "id"), args[1])
            same_t = ps.decide(same, "id-matches") if not isinstance(same, bool) else same
            if same_t:
                ob("step/match-sets-result-and-stops", cell is n and r == "stop", f"result={cell} ret={r!r}")
            else:
                ob("step/no-match-keeps-result-and-continues", cell is None and r is None, f"result={cell} ret={r!r}")
        ob("pure", not [w for w in ps.writes if isinstance(w[0], Obj) and w[0].lazy and w[1] in ("left", "right", "parent", "id")], "wrote to the tree")
    finally:
        I.contracts = saved
    return {"obligations": obl, "labels": list(ps.labels)}


# ------------------------------------------------------------------ loops: get_root / get_root_side
def _find_loop(fv):
    for n in ast.walk(fv.node):
        if isinstance(n, ast.While):
            return n
    raise OutOfSubset(f"{fv.qual}: expected a while loop")


def root_loop_path(I: Interp, ps: PathState, fname: str) -> Dict[str, Any]:
    """Invariant: `result` is an ancestor-or-self of `self`; for get_root_side additionally
    `last_child` is None iff result is self, else last_child is the child of result on the path."""
    I.ps = ps
    I.call_depth = 0
    heap = LinksHeap(I, kinds=NODE_KINDS)
    obl: List[Dict[str, Any]] = []

    def ob(clause, ok, detail=""):
        obl.append({"clause": f"{fname}/{clause}", "ok": bool(ok), "detail": detail})

    fv = I.get_func("mathy_core.tree", f"BinaryTreeNode.{fname}")
    loop = _find_loop(fv)
    body = fv.node.body
    idx = next(i for i, st in enumerate(body) if st is loop)
    pre_stmts = [st for st in body[:idx] if not (isinstance(st, ast.Expr) and isinstance(st.value, ast.Constant))]
    post_stmts = body[idx + 1 :]
    phase = ["init", "step", "exit"][ps.choose(3, "phase")]
    me = heap.new_input("self")
    env = Env(parent=fv.env)
    env.vars["self"] = me
    env.vars["__owner__"] = fv.owner
    if phase == "init":
        for st in pre_stmts:
            I.exec_stmt(st, env)
        ob("inv-init/result-is-self", env.vars.get("result") is me, repr(env.vars.get("result")))
        if fname == "get_root_side":
            ob("inv-init/last_child-none", env.vars.get("last_child", "unset") is None, repr(env.vars.get("last_child", "unset")))
        return {"obligations": obl, "labels": list(ps.labels)}
    # arbitrary iteration: result = some ancestor-or-self A of self
    is_self = ps.choose(2, "result-is-self") == 0
    if is_self:
        A = me
        last = None
    else:
        A = heap.new_input("anc")  # ghost: A is a strict ancestor of self
        side = ["left", "right"][ps.choose(2, "last-child-side")]
        last = heap.new_input("anc.child")  # ghost: ancestor-or-self of self, child of A
        A.init[side] = A.cur[side] = last
        last.init["parent"] = last.cur["parent"] = A
    env.vars["result"] = A
    if fname == "get_root_side":
        env.vars["last_child"] = last
    cond = I.cond(loop.test, env, "loop-test")
    if phase == "step":
        if not cond:
            return {"obligations": [], "labels": list(ps.labels), "skip": True}
        I.exec_block(loop.body, env)
        newA = env.vars["result"]
        ob("inv-preserve/result-is-parent", newA is A.init.get("parent") and isinstance(newA, Obj), f"{newA}")
        if fname == "get_root_side":
            ob("inv-preserve/last_child-is-old-result", env.vars["last_child"] is A, repr(env.vars["last_child"]))
        ob("variant/strictly-closer-to-root", newA is not A, "no progress")
        ob("pure", not [w for w in ps.writes if isinstance(w[0], Obj) and w[0].lazy], "loop body wrote to the tree")
        return {"obligations": obl, "labels": list(ps.labels)}
    # exit
    if cond:
        return {"obligations": [], "labels": list(ps.labels), "skip": True}
    ob("exit/result-has-no-parent", A.init.get("parent", "unread") is None, repr(A.init.get("parent", "unread")))
    try:
        for st in post_stmts:
            I.exec_stmt(st, env)
        ret = None
    except PyRaise as pr:
        if fname == "get_root_side" and is_self:
            # get_root_side of a root is outside the documented domain (no side); nothing is claimed
            return {"obligations": obl, "labels": list(ps.labels)}
        ob("exit/no-raise", False, f"raised {pr.exc.clsname}")
        return {"obligations": obl, "labels": list(ps.labels)}
    except Exception as e:  # ReturnEx
        from pyvc.values import ReturnEx

        if not isinstance(e, ReturnEx):
            raise
        ret = e.value
    if fname == "get_root":
        ob("exit/returns-root", ret is A, repr(ret))
    elif not is_self:
        want = "left" if A.init.get("left") is last else "right"
        ob("exit/returns-side-of-last-child", ret == want, f"{ret!r} vs {want}")
    return {"obligations": obl, "labels": list(ps.labels)}


# ------------------------------------------------------------------ loop-free look-ups
def lookup_path(I: Interp, ps: PathState, fname: str) -> Dict[str, Any]:
    I.ps = ps
    I.call_depth = 0
    heap = LinksHeap(I, kinds=NODE_KINDS)
    obl: List[Dict[str, Any]] = []

    def ob(clause, ok, detail=""):
        obl.append({"clause": f"{fname}/{clause}", "ok": bool(ok), "detail": detail})

    me = heap.new_input("self")
    try:
        if fname == "get_side":
            which = ps.choose(3, "child-arg")
            if which == 0:
                child = I.getattr(me, "left")
            elif which == 1:
                child = I.getattr(me, "right")
            else:
                child = heap.new_input("stranger")
            try:
                ret = I.call_method(me, "get_side", [child], {})
            except PyRaise as pr:
                l, r = I.getattr(me, "left"), I.getattr(me, "right")
                ob("raises-ValueError-only-for-non-child", pr.exc.clsname == "ValueError" and child is not l and child is not r, f"{pr.exc.clsname}")
                return {"obligations": obl, "labels": list(ps.labels)}
            l, r = I.getattr(me, "left"), I.getattr(me, "right")
            want = "left" if child is l else "right" if child is r else None
            ob("agrees-with-links", ret == want, f"{ret!r} vs {want!r}")
        elif fname == "get_sibling":
            ret = I.call_method(me, "get_sibling", [], {})
            p = I.getattr(me, "parent")
            if p is None:
                ob("root-has-no-sibling", ret is None, repr(ret))
            else:
                l, r = I.getattr(p, "left"), I.getattr(p, "right")
                want = r if l is me else l
                ob("agrees-with-links", ret is want, f"{ret} vs {want}")
        elif fname == "get_children":
            ret = I.call_method(me, "get_children", [], {})
            l, r = I.getattr(me, "left"), I.getattr(me, "right")
            want = [c for c in (l, r) if c is not None]
            ob("left-then-right", isinstance(ret, ListObj) and len(ret.items) == len(want) and all(a is b for a, b in zip(ret.items, want)), repr(ret))
        elif fname == "is_leaf":
            ret = I.call_method(me, "is_leaf", [], {})
            ret = I.truth(ret, "is_leaf")
            l, r = I.getattr(me, "left"), I.getattr(me, "right")
            ob("iff-no-children", ret == (l is None and r is None), repr(ret))
    except PyRaise as pr:
        ob("no-raise", False, f"raised {pr.exc.clsname} at {pr.site}")
    ob("pure", not [w for w in ps.writes if isinstance(w[0], Obj) and w[0].lazy], "wrote to the tree")
    return {"obligations": obl, "labels": list(ps.labels)}


def run(tier: str, seed: int) -> int:
    R = Result("C14", tier, seed)
    I = Interp(REPO)
    try:
        I.load_module("mathy_core.tree")
        I.load_module("mathy_core.expressions")
    except Exception as e:  # noqa: BLE001
        R.engine_errors.append(f"cannot load sources: {e!r}")
        return R.finish()
    n_obl = n_ok = 0
    samples = []
    per_fn: Dict[str, int] = {}
    jobs = (
        [(m, lambda ps, m=m: traversal_path(I, ps, m)) for m in ORDERS]
        + [(f, lambda ps, f=f: closure_step_path(I, ps, f)) for f in ("to_list", "find_type", "find_id")]
        + [(f, lambda ps, f=f: root_loop_path(I, ps, f)) for f in ("get_root", "get_root_side")]
        + [(f, lambda ps, f=f: lookup_path(I, ps, f)) for f in ("get_side", "get_sibling", "get_children", "is_leaf")]
    )
    nviol = 0
    for name, fn in jobs:
        try:
            outs = explore(fn)
        except OutOfSubset as e:
            R.undecided.append(f"{name}: out-of-subset: {e}")
            continue
        stopped_cover = False
        for o in outs:
            if o.error is not None:
                R.undecided.append(f"{name}: out-of-subset: {o.error}")
                continue
            r = o.result
            stopped_cover = stopped_cover or bool(r.get("stopped"))
            for ob in r["obligations"]:
                n_obl += 1
                per_fn[name] = per_fn.get(name, 0) + 1
                if ob["ok"]:
                    n_ok += 1
                    if len(samples) < 4 and ob["clause"].endswith(("prefix", "appends-node", "returns-root")):
                        samples.append({"obligation": f"C14/{ob['clause']}", "path": r["labels"], "status": "proved"})
                else:
                    nviol += 1
                    if nviol <= 6:
                        R.violation(f"obligation C14/{ob['clause']} failed on path {r['labels']}: {ob['detail'][:240]}", {"obligation": ob, "path": r["labels"]}, False)
        if name in ORDERS and not stopped_cover:
            R.engine_errors.append(f"vacuous: no stopping path explored for {name}")
        if per_fn.get(name, 0) == 0:
            R.engine_errors.append(f"vacuous: no obligation for {name}")
    n = 6 if tier == "quick" else 8
    p = run_venv("tree_tierb.py", ["traversals", str(n)], timeout=3000)
    bounded = {}
    if p.returncode not in (0, 1):
        R.engine_errors.append("tier-B failed: " + p.stderr[-300:])
    else:
        bounded = tierb_json(p, R)
        for f in bounded.get("failures", [])[:4]:
            R.violation(f"bounded check on real code: traversal/look-up {f}", {"failure": f}, True)
    R.level = "proof" if not R.undecided else "other"
    from . import engine_diff

    diff_summary = engine_diff.report(R, engine_diff.methods_diff(), "evaluate / clone / traversals / rotate / term functions on concrete trees")
    R.coverage = {
        "engine_differential": diff_summary,
        "obligations": n_obl,
        "discharged": n_ok,
        "checker_cmd": f"/verif/bin/check C14 --tier {tier}",
        "trusted_base": [
            "pyvc symbolic executor",
            "LINKS invariant on input trees",
            "fold lemma (schematic, not machine-checked): a closure whose single step maps accumulator R to step(R, n), run once per element of a sequence in order and stopping at the first STOP, computes the fold of that sequence",
        ],
        "obligations_per_function": per_fn,
        "functions_under_contract": list(per_fn),
        "samples": samples,
        "explanation": "structural induction for the three traversals (recursive calls replaced by the contract, visitor arbitrary), fold steps for to_list/find_type/find_id, loop invariants for get_root/get_root_side, all paths for the loop-free look-ups",
        "bounded": {k: v for k, v in bounded.items() if k != "failures"},
    }
    R.assumptions = ["get_root_side on a root node is outside the domain (the property speaks of the side a node lives on)"]
    return R.finish()
