"""Engine differential tests (soundness guard for the VC generator, never a verdict on the property):
the symbolic interpreter is run on CONCRETE inputs with no callee contract and must reproduce what
CPython does on the real package.  Results are memoised per (repo sources, verifier sources)."""
from __future__ import annotations

import fcntl
import json
import os
import tempfile
from typing import Any, Dict

from .common import REPO, VERIF, repo_digest, run_venv, verif_digest


def _cached(name: str, compute) -> Dict[str, Any]:
    key = f"{name}_{repo_digest()}_{verif_digest()}"
    cdir = os.path.join(VERIF, "out", "cache")
    os.makedirs(cdir, exist_ok=True)
    path = os.path.join(cdir, key + ".json")
    lock = open(os.path.join(cdir, key + ".lock"), "w")
    fcntl.flock(lock, fcntl.LOCK_EX)
    try:
        if os.path.exists(path) and os.environ.get("PYVC_NOCACHE") != "1":
            with open(path) as f:
                return json.load(f)
        data = compute()
        tmp = path + f".tmp{os.getpid()}"
        with open(tmp, "w") as f:
            json.dump(data, f, default=str)
        os.replace(tmp, path)
        for fn in os.listdir(cdir):
            if fn.startswith(name + "_") and not fn.startswith(key):
                try:
                    os.unlink(os.path.join(cdir, fn))
                except OSError:
                    pass
        return data
    finally:
        fcntl.flock(lock, fcntl.LOCK_UN)
        lock.close()


def _native(script: str, args) -> Any:
    p = run_venv(script, [str(a) for a in args], timeout=3000)
    if p.returncode != 0:
        return {"error": f"native side failed: {p.stderr[-300:]}"}
    try:
        return json.loads(p.stdout)
    except ValueError:
        return {"error": "native side printed no JSON: " + p.stderr[-300:]}


def rules_diff() -> Dict[str, Any]:
    def compute():
        cases = _native("diff_native.py", [4])
        if isinstance(cases, dict):
            return cases
        from pyvc import difftest

        return difftest.run_all(REPO, cases)

    return _cached("diffrules", compute)


def parse_diff() -> Dict[str, Any]:
    def compute():
        cases = _native("diff_native_parse.py", [3, 300])
        if isinstance(cases, dict):
            return cases
        from pyvc import difftest

        return difftest.run_parse_all(REPO, cases)

    return _cached("diffparse", compute)


def methods_diff() -> Dict[str, Any]:
    def compute():
        data = _native("diff_native_methods.py", [4])
        if "error" in data:
            return data
        from pyvc import difftest

        return difftest.run_methods_all(REPO, data)

    return _cached("diffmethods", compute)


def report(R, summary: Dict[str, Any], what: str) -> Dict[str, Any]:
    """Mismatch = the interpreter does not execute the source the way CPython does: engine error."""
    if "error" in summary:
        R.engine_errors.append(f"engine differential test ({what}) did not run: {summary['error'][:300]}")
        return summary
    for m in summary.get("mismatches", [])[:3]:
        text = m if isinstance(m, str) else f"{m.get('what')} [{m.get('rule')} node {m.get('node')} of {json.dumps(m.get('tree'))[:120]}]"
        R.engine_errors.append(f"engine differential test ({what}): interpreter and CPython disagree: {text[:400]}")
    agreed = summary.get("agree")
    total = sum(agreed.values()) if isinstance(agreed, dict) else (agreed or 0)
    if not total:
        R.engine_errors.append(f"engine differential test ({what}) compared nothing")
    return {k: v for k, v in summary.items() if k != "mismatches"}
