"""C01, C02, C06, C07: obligations generated from the real rule sources by pyvc, the bounded
stand-in on the real code, known findings, replay of counter-models."""
from __future__ import annotations

import fcntl
import json
import os
import time
from collections import Counter, defaultdict
from typing import Any, Dict, List

from .common import (
    REPO,
    VERIF,
    Result,
    load_known,
    match_known,
    parse_cases,
    repo_digest,
    run_venv,
    verif_digest,
)

PROP_CLAUSES = {
    "C01": [("C01", None)],
    "C02": [("C02", None)],
    "C06": [("C06", None)],
    "C07": [("C07", None)],
}

TRUSTED = [
    "pyvc symbolic executor (own VC generator): Python semantics of the supported subset as encoded in /verif/pyvc",
    "z3 4.x / cvc5 as decision procedures",
    "machine numbers treated as mathematical reals/integers (floating-point rounding not modelled)",
    "pow axioms: pow(b,0)=1, pow(b,1)=b, pow(b,e1+e2)=pow(b,e1)*pow(b,e2) where defined; defined(b,e) <=> b>0 or (b=0 and e>=0) or (b<0 and e integer)",
    "external contracts of numpy/math functions (pyvc/externals.py)",
    "WF invariant on input trees (DESIGN 2.2): established by the parser (C10), preserved by rules (C07)",
    "callee contracts used at call sites: clone/clone_from_root (proved in C13), get_root/get_root_side/find_type/all_changed (C14), factor (C16)",
]


def symbolic_reports(tier: str) -> Dict[str, Any]:
    """All path reports of all rule configurations for the *current* source tree.  The result is a
    deterministic function of (repo sources, verifier sources); it is memoised under that key so the
    four properties sharing the exploration do not repeat it."""
    timeout_ms = 10000 if tier == "quick" else 60000
    key = f"rules_{repo_digest()}_{verif_digest()}_{timeout_ms}"
    cdir = os.path.join(VERIF, "out", "cache")
    os.makedirs(cdir, exist_ok=True)
    path = os.path.join(cdir, key + ".json")
    lock = open(os.path.join(cdir, key + ".lock"), "w")
    fcntl.flock(lock, fcntl.LOCK_EX)
    try:
        if os.path.exists(path) and os.environ.get("PYVC_NOCACHE") != "1":
            with open(path) as f:
                data = json.load(f)
            data["from_cache"] = True
            return data
        from pyvc.ruledriver import run_all

        t0 = time.time()
        reps = run_all(repo=REPO, timeout_ms=timeout_ms)
        data = {"reports": reps, "seconds": time.time() - t0, "from_cache": False, "key": key}
        tmp = path + f".tmp{os.getpid()}"
        with open(tmp, "w") as f:
            json.dump(data, f)
        os.replace(tmp, path)
        # keep the cache small
        for fn in os.listdir(cdir):
            if fn.startswith("rules_") and not fn.startswith(key) and fn.endswith(".json"):
                try:
                    os.unlink(os.path.join(cdir, fn))
                except OSError:
                    pass
        return data
    finally:
        fcntl.flock(lock, fcntl.LOCK_UN)
        lock.close()


def tierb_sweep(tier: str, seed: int) -> Dict[str, Any]:
    scope = (4, 3) if tier == "quick" else (5, 3)
    key = f"sweep_{repo_digest()}_{verif_digest()}_{scope[0]}_{scope[1]}"
    cdir = os.path.join(VERIF, "out", "cache")
    os.makedirs(cdir, exist_ok=True)
    path = os.path.join(cdir, key + ".json")
    lock = open(os.path.join(cdir, key + ".lock"), "w")
    fcntl.flock(lock, fcntl.LOCK_EX)
    try:
        if os.path.exists(path) and os.environ.get("PYVC_NOCACHE") != "1":
            with open(path) as f:
                return json.load(f)
        p = run_venv("rules_sweep.py", [str(scope[0]), str(scope[1]), "16"], timeout=7200)
        if p.returncode != 0:
            return {"error": p.stderr[-2000:]}
        data = json.loads(p.stdout)
        data["scope"] = {"max_expression_nodes": scope[0], "max_equation_side_nodes": scope[1]}
        with open(path, "w") as f:
            json.dump(data, f)
        for fn in os.listdir(cdir):
            if fn.startswith("sweep_") and not fn.startswith(key) and fn.endswith(".json"):
                try:
                    os.unlink(os.path.join(cdir, fn))
                except OSError:
                    pass
        return data
    finally:
        fcntl.flock(lock, fcntl.LOCK_UN)
        lock.close()


def run(prop: str, tier: str, seed: int) -> int:
    R = Result(prop, tier, seed)
    known = load_known()
    data = symbolic_reports(tier)
    reps = data["reports"]
    # ---------------- obligations of this property
    n_obl = 0
    n_ok = 0
    backends = Counter()
    solver_s = 0.0
    per_cfg_app = Counter()
    per_cfg_paths = Counter()
    funcs = set()
    failures: List[Dict[str, Any]] = []
    samples = []
    for r in reps:
        per_cfg_paths[r["cfg"]] += 1
        if r.get("error"):
            R.undecided.append(f"{r['cfg']}: {r['error']}")
            continue
        if r["applicable"]:
            per_cfg_app[r["cfg"]] += 1
        for ob in r["obligations"]:
            if ob["prop"] != prop:
                continue
            n_obl += 1
            backends[ob["backend"]] += 1
            solver_s += ob.get("seconds") or 0.0
            oid = f"{prop}/{r['cfg']}/{ob['clause']}/{_digest(r['labels'])}"
            if ob["status"] == "proved":
                n_ok += 1
                if len(samples) < 3:
                    samples.append({"obligation": oid, "status": "proved", "backend": ob["backend"], "path": r["labels"][-8:]})
                continue
            if ob["status"] == "unknown":
                R.undecided.append(f"{oid}: solver undecided ({ob.get('reason')}) {ob.get('detail')}")
                continue
            cases = [{k: v for k, v in c.items() if not k.startswith("__")} for c in parse_cases(ob.get("detail", ""))]
            failures.append({"id": oid, "cfg": r["cfg"], "clause": ob["clause"], "shape": r["shape"], "cases": cases,
                             "detail": ob.get("detail", ""), "witness": ob.get("witness"), "labels": r["labels"]})
    # ---------------- C06: node search (find_nodes / find_node) as fold steps
    if prop == "C06":
        from .c06_find import run_find

        fr = run_find(REPO)
        for e in fr["errors"]:
            R.undecided.append(e)
        for ob in fr["obligations"]:
            n_obl += 1
            backends["pyvc-concrete"] += 1
            if ob["ok"]:
                n_ok += 1
            else:
                failures.append({"id": f"C06/BaseRule.{ob['clause']}", "cfg": "BaseRule", "clause": ob["clause"], "shape": {}, "cases": [],
                                 "detail": ob["detail"], "witness": None, "labels": ob.get("labels", [])})
    # ---------------- C02: the induction behind the additive ancestor segment (balanced move)
    if prop == "C02":
        from .segment_lemma import run_lemma

        lr = run_lemma(REPO)
        for e in lr["errors"]:
            R.undecided.append(e)
        for ob in lr["obligations"]:
            n_obl += 1
            backends["z3-api"] += 1
            funcs.add("AddExpression.evaluate (additive-segment lemma)")
            if ob["ok"]:
                n_ok += 1
            elif ob.get("unknown"):
                R.undecided.append(f"C02/{ob['clause']}: solver undecided")
            else:
                failures.append({"id": f"C02/{ob['clause']}", "cfg": "additive-segment-lemma", "clause": ob["clause"], "shape": {}, "cases": [],
                                 "detail": ob["detail"], "witness": None, "labels": ob.get("labels", [])})
    # ---------------- C07: the contract of clone / clone_from_root that the frame argument relies on
    if prop == "C07":
        from pyvc.explore import explore as _explore
        from pyvc.interp import Interp as _Interp
        from pyvc.values import OutOfSubset as _Oos

        from . import c13

        I2 = _Interp(REPO)
        try:
            I2.load_module("mathy_core.expressions")
            jobs = [("clone_from_root", lambda ps: c13.clone_from_root_path(I2, ps))] + [
                (f"{k}.clone", (lambda ps, k=k: c13.clone_path(I2, ps, k))) for k in c13.EXPR_KINDS
            ]
            for name, fn in jobs:
                for o in _explore(fn):
                    if o.error is not None:
                        R.undecided.append(f"{name}: out-of-subset: {o.error}")
                        continue
                    for ob in o.result["obligations"]:
                        n_obl += 1
                        backends["pyvc-concrete"] += 1
                        if ob["ok"]:
                            n_ok += 1
                        else:
                            failures.append({"id": f"C07/{ob['clause']}", "cfg": name, "clause": ob["clause"], "shape": {}, "cases": [],
                                             "detail": ob["detail"], "witness": None, "labels": o.result["labels"]})
        except _Oos as e:
            R.undecided.append(f"clone contracts: out-of-subset: {e}")
    # ---------------- classify failures
    new = []
    for f in failures:
        k = match_known(known, prop, f)
        if k is not None:
            R.known(k)
        else:
            new.append(f)
    # replay counter-models of new failures on the real code
    if new:
        # one witness per distinct (configuration, clause, shape): at most 30 native replays, 20 s each
        wits, seen_w = [], set()
        for f in new:
            if f.get("witness") and "tree" in f["witness"]:
                sig = (f["cfg"], f["clause"], json.dumps(_small_shape(f["shape"]), sort_keys=True))
                if sig not in seen_w and len(wits) < 30:
                    seen_w.add(sig)
                    wits.append(f["witness"])
        replays = {}
        if wits:
            try:
                p = run_venv("rules_tierb.py", ["replay-stdin"], stdin=json.dumps(wits), timeout=900)
            except Exception as e:  # noqa: BLE001  (a replay that does not come back never masks the verdict)
                p = None
                R.say(f"NOTE native replay of counter-models did not finish: {type(e).__name__}")
            if p is not None and p.returncode == 0:
                try:
                    outs = json.loads(p.stdout)
                    for w, o in zip(wits, outs):
                        replays[id(w)] = o
                except json.JSONDecodeError:
                    pass
        seen_sig = set()
        for f in new:
            sig = (f["cfg"], f["clause"], json.dumps(_small_shape(f["shape"]), sort_keys=True), f["detail"][:120])
            if sig in seen_sig:
                continue
            seen_sig.add(sig)
            rp = replays.get(id(f.get("witness"))) if f.get("witness") else None
            found = bool(rp and rp.get("failures") and any(x["prop"] == prop or True for x in rp["failures"]))
            what = f"obligation {f['id']} failed: {f['clause']} [{f['cfg']}] {f['detail'][:160]} shape={json.dumps(_small_shape(f['shape']))[:300]}"
            R.violation(what, {"obligation": f["id"], "failure": f, "native_replay": rp}, found)
    # ---------------- bounded stand-in on the real code
    sweep = tierb_sweep(tier, seed)
    b_new = 0
    if "error" in sweep:
        R.engine_errors.append("tier-B sweep failed: " + sweep["error"][-300:])
    else:
        for f in sweep["failures"]:
            if f["prop"] != prop:
                continue
            f2 = {"cfg": f["cfg"], "clause": f["clause"], "shape": f.get("shape", {}), "cases": [], "detail": f.get("detail", "")}
            k = match_known(known, prop, f2)
            if k is not None:
                R.known(k)
                continue
            b_new += 1
            what = f"bounded check on real code: {f['clause']} [{f['cfg']}] input `{f.get('input')}` node `{f.get('node')}`: {f.get('detail', '')[:160]}"
            R.violation(what, {"failure": f}, True)
    # ---------------- known findings: replay their stored witnesses
    kf_inputs = []
    for k in known:
        if k.get("status") == "open" and prop in k["properties"] and k.get("witness"):
            kf_inputs.append(k)
    if kf_inputs:
        spec = [dict(k["witness"]) for k in kf_inputs]
        p = run_venv("rules_tierb.py", ["text"], stdin=json.dumps(spec), timeout=600)
        if p.returncode == 0:
            outs = json.loads(p.stdout)
            for k, fs in zip(kf_inputs, outs):
                if any(x["prop"] in k["properties"] for x in fs):
                    R.known(k)
        else:
            R.engine_errors.append("known-finding replay failed: " + p.stderr[-300:])
    # ---------------- engine guards: canaries and concolic cross-check against CPython
    canaries = [ob for r in reps for ob in r.get("obligations", []) if ob["prop"] == "ENGINE" and ob["clause"].startswith("canary")]
    for ob in canaries:
        if ob["status"] != "proved":
            R.engine_errors.append("canary failed: a deliberately false obligation was proved (" + ob.get("detail", "") + ")")
    vacuous = sum(1 for r in reps for ob in r.get("obligations", []) if ob["prop"] == "ENGINE" and ob["clause"].startswith("vacuous"))
    conc = [r["concolic"] for r in reps if r.get("concolic")]
    validated = 0
    validated_neg = 0
    mismatches = []
    if conc:
        try:
            p = run_venv("rules_tierb.py", ["replay-stdin"], stdin=json.dumps(conc), timeout=2400)
        except Exception as e:  # noqa: BLE001
            p = None
            R.engine_errors.append(f"concolic replay did not finish: {type(e).__name__}")
        if p is not None and p.returncode == 0:
            try:
                for w, o in zip(conc, json.loads(p.stdout)):
                    if not o.get("realised"):
                        continue
                    want = w.get("expect_applicable", True)
                    if o.get("applicable") is not want:
                        mismatches.append(f"{w['rule']}: engine says {'applicable' if want else 'not applicable'}, CPython says {o.get('applicable')!r}, on `{o.get('input')}` at `{o.get('node')}`")
                    else:
                        validated += 1
                        validated_neg += 0 if want else 1
            except json.JSONDecodeError:
                pass
    for mm in mismatches[:5]:
        R.engine_errors.append("concolic mismatch: " + mm)
    # ---------------- engine differential test: interpreter vs CPython on concrete trees, no contracts
    from . import engine_diff

    diff_summary = engine_diff.report(R, engine_diff.rules_diff(), "rules on concrete trees")
    # ---------------- vacuity guards
    if n_obl == 0:
        R.engine_errors.append("no obligations generated")
    from pyvc.rulecheck import RULE_CONFIGS

    for cfg in RULE_CONFIGS:
        if per_cfg_app[cfg[0]] == 0 and not any(u.startswith(cfg[0]) for u in R.undecided):
            R.engine_errors.append(f"no applicable path for {cfg[0]} (vacuous)")
    # ---------------- evidence
    R.level = "proof" if (not R.undecided and n_ok == n_obl) else "other"
    R.coverage = {
        "obligations": n_obl,
        "discharged": n_ok,
        "refuted_known": len(failures) - len(new),
        "refuted_new": len(new),
        "checker_cmd": f"/verif/bin/check {prop} --tier {tier}",
        "trusted_base": TRUSTED,
        "backends": dict(backends),
        "solver_seconds": round(solver_s, 2),
        "exploration_seconds": round(data.get("seconds", 0.0), 1),
        "exploration_from_cache": bool(data.get("from_cache")),
        "paths_per_configuration": dict(per_cfg_paths),
        "applicable_paths_per_configuration": dict(per_cfg_app),
        "functions_under_contract": FUNCTIONS,
        "lemmas": (["additive ancestor segment (value(top) = value(hole) + k through a chain of additions): induction base + step on either operand side, step discharged on the real AddExpression.evaluate/operate (checks/segment_lemma.py)"] if prop == "C02" else []),
        "samples": samples,
        "traces_validated_against_impl": validated + int(diff_summary.get("agree", 0) or 0),
        "concolic_paths_replayed_on_cpython": validated,
        "engine_differential": diff_summary,
        "of_which_inapplicable_paths": validated_neg,
        "canaries_refuted": len([c for c in canaries if c["status"] == "proved"]),
        "vacuous_paths_never_both_defined": vacuous,
        "bounded": {
            "what": "every tree of the scope x every node x 11 rule configurations applied on a clone, contract checked at run time on the real code (not counted as proved)",
            "scope": sweep.get("scope"),
            "trees": sweep.get("trees"),
            "applications": sweep.get("applications"),
            "exhaustive": True,
            "new_failures": b_new,
        },
        "explanation": "deductive: one obligation per (rule configuration, path, clause) generated from the current source by symbolic execution over a lazily initialised WF tree; refuted obligations are either listed known findings (reported, exit 0) or violations",
    }
    R.assumptions = TRUSTED + ["known findings (open) are excluded from the claim: " + ", ".join(sorted(R.known_hits))]
    return R.finish()


FUNCTIONS = {
    "proved against body here (inlined at call sites, executed from source on every path)": [
        "rules/*.py: can_apply_to, apply_to, get_type, has_add_siblings (11 configurations)",
        "rule.py: BaseRule.apply_to, ExpressionChangeRule.__init__/save_parent/done",
        "tree.py: BinaryTreeNode.__init__, set_left, set_right, set_side, get_side, get_sibling, rotate",
        "expressions.py: constructors, set_child, get_child, _check, evaluate/operate on materialised operands, set_changed",
        "util.py: unlink, get_term_ex, make_term, factor_add_terms_ex, FactorResult, TermEx, is_debug_mode",
    ],
    "used through their contract (proved elsewhere)": [
        "MathExpression.clone / ConstantExpression.clone / VariableExpression.clone / clone_from_root (C13)",
        "BinaryTreeNode.get_root / get_root_side, MathExpression.find_type / all_changed (C14)",
        "util.factor (C16)",
    ],
    "assumed (external)": ["numpy.power/min/max/sqrt/absolute/seterr", "math.isnan/factorial"],
}


def _digest(labels):
    import hashlib

    return hashlib.sha1("|".join(labels).encode()).hexdigest()[:10]


def _small_shape(shape):
    return {k: v for k, v in shape.items() if len(v) <= 3}
