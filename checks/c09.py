"""C09: any sequence of rewrites keeps the expression equivalent to the original.

Proved by composition (induction on the length of the sequence): WF is established by the parser
(C10/C03), every applicable step preserves WF (C07 obligations + constant-payload closure), preserves
the denotation (C01/C02 obligations), and is applied to a copy produced by clone_from_root whose
contract (C13) makes earlier states disjoint from everything a later step may write (frame obligations).
This check re-generates those one-step obligations from the current source (it does not trust stale
evidence) and adds the closure obligations.  'Prints and re-parses' is C04's clause and inherits its
level; a bounded breadth-first rewriting run on the real code cross-checks all clauses together.
"""
from __future__ import annotations

import json
from collections import Counter
from typing import Any, Dict, List

from pyvc.explore import explore
from pyvc.interp import Interp
from pyvc.values import OutOfSubset

from . import c13
from .common import REPO, Result, load_known, match_known, parse_cases, run_venv, tierb_json
from .rules_family import FUNCTIONS, TRUSTED, _digest, _small_shape, symbolic_reports

STEP_PROPS = ("C01", "C02", "C07", "C09")


def run(tier: str, seed: int) -> int:
    R = Result("C09", tier, seed)
    known = load_known()
    data = symbolic_reports(tier)
    n_obl = n_ok = 0
    per_prop = Counter()
    failures: List[Dict[str, Any]] = []
    samples = []
    for r in data["reports"]:
        if r.get("error"):
            R.undecided.append(f"{r['cfg']}: {r['error']}")
            continue
        for ob in r["obligations"]:
            if ob["prop"] not in STEP_PROPS:
                continue
            n_obl += 1
            per_prop[ob["prop"] + "/" + ob["clause"]] += 1
            oid = f"C09/step/{ob['prop']}/{r['cfg']}/{ob['clause']}/{_digest(r['labels'])}"
            if ob["status"] == "proved":
                n_ok += 1
                if len(samples) < 3 and ob["clause"] == "closure/constant-payload":
                    samples.append({"obligation": oid, "status": "proved", "path": r["labels"][-6:]})
            elif ob["status"] == "unknown":
                R.undecided.append(f"{oid}: solver undecided")
            else:
                cases = [{k: v for k, v in c.items() if not k.startswith("__")} for c in parse_cases(ob.get("detail", ""))]
                failures.append({"id": oid, "cfg": r["cfg"], "clause": ob["clause"], "shape": r["shape"], "cases": cases, "detail": ob.get("detail", ""),
                                 "witness": ob.get("witness"), "prop": ob["prop"]})
    # clone_from_root (steps are applied to copies; earlier states are never altered)
    I = Interp(REPO)
    try:
        I.load_module("mathy_core.expressions")
        outs = explore(lambda ps: c13.clone_from_root_path(I, ps))
        for o in outs:
            if o.error is not None:
                R.undecided.append(f"clone_from_root: out-of-subset: {o.error}")
                continue
            for ob in o.result["obligations"]:
                n_obl += 1
                per_prop["C13/" + ob["clause"]] += 1
                if ob["ok"]:
                    n_ok += 1
                else:
                    failures.append({"id": f"C09/clone/{ob['clause']}", "cfg": "clone_from_root", "clause": ob["clause"], "shape": {}, "cases": [],
                                     "detail": ob["detail"], "witness": None, "prop": "C13"})
    except OutOfSubset as e:
        R.undecided.append(f"clone_from_root: out-of-subset: {e}")
    seen = set()
    for f in failures:
        k = match_known(known, "C09", f)
        if k is not None:
            R.known(k)
            continue
        sig = (f["cfg"], f["clause"], json.dumps(_small_shape(f["shape"]), sort_keys=True), f["detail"][:100])
        if sig in seen:
            continue
        seen.add(sig)
        R.violation(f"one-step obligation {f['id']} failed: {f['clause']} [{f['cfg']}] {f['detail'][:160]} shape={json.dumps(_small_shape(f['shape']))[:300]}",
                    {"failure": f}, False)
    # bounded breadth-first rewriting on the real code
    depth, cap = (3, 300) if tier == "quick" else (4, 1500)
    p = run_venv("rewrite_bfs.py", [str(depth), str(cap), "16"], timeout=7200)
    bounded = {}
    if p.returncode != 0:
        R.engine_errors.append("tier-B BFS failed: " + p.stderr[-400:])
    else:
        bounded = tierb_json(p, R)
        for f in bounded.get("failures", []):
            k = match_known(known, "C09", {"cfg": f.get("cfg", ""), "clause": f["clause"], "shape": {}, "cases": [], "detail": f["detail"]})
            if k is not None:
                R.known(k)
                continue
            R.violation(f"bounded rewriting on real code: {f['clause']}: {f['detail'][:300]}", {"failure": f}, True)
    if n_obl == 0:
        R.engine_errors.append("no obligations generated")
    R.level = "other"
    R.coverage = {
        "explanation": "induction over the rewrite sequence: the step obligations (value/equation, structure, frame, variables, constant payload, clone_from_root) are all deductive; "
        "the print/re-parse clause is only checked on the bounded run (C04's level)",
        "obligations": n_obl,
        "discharged": n_ok,
        "obligations_per_clause": dict(per_prop),
        "checker_cmd": f"/verif/bin/check C09 --tier {tier}",
        "trusted_base": TRUSTED + ["induction schema over the length of the rewrite sequence (meta-argument; its step is the set of obligations above)"],
        "functions_under_contract": FUNCTIONS,
        "samples": samples,
        "bounded": {k: v for k, v in bounded.items() if k != "failures"},
    }
    R.assumptions = TRUSTED
    return R.finish()
