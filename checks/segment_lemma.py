"""Lemma behind the *additive ancestor segment* used by the C02 obligations (pyvc/heap.py: Gap with
additive=True, den = hole + k, defined = defined(hole) and d).

Claim: for every chain of AddExpression nodes above a node h (each node of the chain has the
previous one as its left or right operand), there are a number k and a boolean d that do not depend
on h such that  value(top) = value(h) + k  and  defined(top) <=> defined(h) and d.

Proof by induction on the length of the chain, discharged here from the real source:
  base   - the empty chain: k = 0, d = true;
  step   - the chain grows by one AddExpression `p` with the old top on one side (value hv + k by
           the hypothesis) and some operand of value o on the other: the *real*
           `AddExpression.evaluate` (BinaryExpression.evaluate -> AddExpression.operate, both run
           from the current source, nothing under contract except the operands' evaluate = the
           hypothesis) returns hv + (k + o), raises nothing, and evaluates each operand exactly once
           with the caller's context - so k' = k + o, d' = d and defined(o); with an undefined (NaN) operand on the other side the result is
           undefined, never a number.
The arithmetic step is the solver's; what the source contributes is that evaluate of an addition
is the sum of its operands' values, in either operand position.
"""
from __future__ import annotations

from typing import Any, Dict, List

import z3

from pyvc import externals
from pyvc.explore import explore, prove
from pyvc.interp import Interp, PathState
from pyvc.values import NAN, Num, OutOfSubset, PyRaise, zreal

from .c05 import _sym_number

KIND = "AddExpression"


def step_path(I: Interp, ps: PathState) -> Dict[str, Any]:
    I.ps = ps
    I.call_depth = 0
    obl: List[Dict[str, Any]] = []
    side = ["left", "right"][ps.choose(2, "segment-top-side")]
    other = "right" if side == "left" else "left"

    def ob(clause, ok, detail="", goal=None):
        name = f"additive-segment/step-{side}/{clause}"
        if goal is not None:
            v = prove(ps.pc, [], goal, timeout_ms=10000)
            if v.status == "unknown":
                obl.append({"clause": name, "ok": False, "unknown": True, "detail": "solver undecided"})
                return
            ok = v.status == "proved"
            detail = detail or f"{v.status}: {v.model}"
        obl.append({"clause": name, "ok": bool(ok), "detail": detail if not ok else ""})

    me = I.new_obj([KIND], label="p")
    ctx = I.new_obj(["object"], label="context")
    top = I.new_obj(["ConstantExpression"], label="segment-top")
    oth = I.new_obj(["ConstantExpression"], label="other-operand")
    me.cur[side] = top
    me.cur[other] = oth
    hv = _sym_number(ps, "hole")
    k = _sym_number(ps, "k")
    o = _sym_number(ps, "o")
    undefined_other = ps.choose(2, "other-operand-undefined") == 1  # d' = d and defined(o): an undefined operand makes the top undefined
    # induction hypothesis: the old top evaluates to hole + k (some number, int or float)
    tv = _sym_number(ps, "topval")
    ps.assume(zreal(tv) == zreal(hv) + zreal(k))
    results = {id(top): tv, id(oth): (NAN if undefined_other else o)}
    calls = []

    def c_eval(I2, args, kw, fv):
        calls.append((args[0], args[1] if len(args) > 1 else kw.get("context")))
        return results[id(args[0])]

    saved = dict(I.contracts)
    I.contracts["ConstantExpression.evaluate"] = c_eval
    try:
        f = I.classes[KIND].lookup("evaluate")[1]
        try:
            ret = I.call_function(f, [me, ctx], {}, use_contract=False)
            raised = None
        except PyRaise as pr:
            ret, raised = None, pr
    finally:
        I.contracts = saved
    ob("defined-operands-never-raise", raised is None, f"raised {raised.exc.clsname} at {raised.site}" if raised else "")
    ob("each-operand-evaluated-once-with-the-context",
       sorted(id(c) for c, _ in calls) == sorted([id(top), id(oth)]) and all(x is ctx for _, x in calls), str(calls))
    if raised is None and undefined_other:
        ob("undefined-operand-gives-undefined-top", ret is NAN, f"returned {ret!r}")
    elif raised is None:
        if isinstance(ret, Num):
            ob("value-is-hole-plus-(k+o)", True, goal=(zreal(ret) == zreal(hv) + (zreal(k) + zreal(o))))
        else:
            ob("value-is-hole-plus-(k+o)", False, f"returned {ret!r}")
    return {"obligations": obl, "labels": list(ps.labels)}


def base_path(I: Interp, ps: PathState) -> Dict[str, Any]:
    hv = z3.Real("hole")
    v = prove([], [], hv == hv + z3.RealVal(0), timeout_ms=5000)
    return {"obligations": [{"clause": "additive-segment/base/empty-chain-adds-zero", "ok": v.status == "proved", "detail": v.status}],
            "labels": list(ps.labels)}


def run_lemma(repo: str) -> Dict[str, Any]:
    I = Interp(repo)
    externals.install(I)
    out = {"obligations": [], "errors": []}
    try:
        I.load_module("mathy_core.expressions")
    except Exception as e:  # noqa: BLE001
        out["errors"].append(f"additive-segment lemma: cannot load sources: {e!r}")
        return out
    for name, fn in (("base", lambda ps: base_path(I, ps)), ("step", lambda ps: step_path(I, ps))):
        try:
            outs = explore(fn)
        except OutOfSubset as e:
            out["errors"].append(f"additive-segment lemma ({name}): out-of-subset: {e}")
            continue
        n = 0
        for o in outs:
            if o.error is not None:
                out["errors"].append(f"additive-segment lemma ({name}): out-of-subset: {o.error}")
                continue
            for ob in o.result["obligations"]:
                n += 1
                ob["labels"] = o.result["labels"]
                out["obligations"].append(ob)
        if n == 0 and not out["errors"]:
            out["errors"].append(f"additive-segment lemma ({name}): vacuous, no obligation")
    return out


if __name__ == "__main__":
    import json
    import sys

    from .common import REPO

    r = run_lemma(REPO)
    print(json.dumps(r, indent=1, default=str))
    sys.exit(0 if not r["errors"] and all(o["ok"] for o in r["obligations"]) else 1)
