"""C12: parser results do not depend on call history.

Class invariant of ExpressionParser, preserved by tokenize / parse / clear_cache on normal and on
exceptional exit:
    INV  for every key k of _tokens_cache: the value is a list object holding Tokenizer.tokenize(k)
         that has never been handed out or consumed;
         for every key k of _parse_cache: the value is the tree of a successful _parse(tokenize(k)).
With _parse a function of its argument (C10) and the tokenizer pure (C11), INV gives by induction over
the call history that every answer equals a fresh parser's answer.  The three methods are executed
symbolically from the current source for an arbitrary text and an arbitrary cache state satisfying INV.
"""
from __future__ import annotations

import json
from typing import Any, Dict, List

import z3

from pyvc.explore import explore
from pyvc.interp import Interp, PathState
from pyvc.values import DictObj, IdStr, ListObj, Obj, OutOfSubset, PyRaise

from .common import REPO, Result, run_venv, tierb_json


class SymCache:
    """A cache in an arbitrary state satisfying INV: the entry for the text under consideration is
    present or absent (both explored); entries for other texts are untouched by construction."""

    def __init__(self, ps, name, text, make_value):
        self.name, self.text = name, text
        self.present = None  # decided lazily
        self.make_value = make_value
        self.value = None
        self.ps = ps
        self.stores: List[Any] = []
        self.lookups: List[Any] = []
        self.foreign_key = False

    def _decide(self):
        if self.present is None:
            self.present = self.ps.choose(2, f"{self.name}-has-entry") == 0
            if self.present:
                self.value = self.make_value()

    def _is_text(self, key):
        return isinstance(key, IdStr) and key is self.text

    def contains(self, I, key):
        self.lookups.append(key)
        if not self._is_text(key):
            self.foreign_key = True
            return self.ps.choose(2, f"{self.name}-foreign-key") == 0
        self._decide()
        return self.present

    def getitem(self, I, key):
        self.lookups.append(key)
        if not self._is_text(key):
            self.foreign_key = True
            return self.make_value()
        self._decide()
        if not self.present:
            I.raise_("KeyError", "missing cache entry", implicit=True, site=f"{self.name}[]")
        return self.value

    def setitem(self, I, key, v):
        self.stores.append((key, v))
        if not self._is_text(key):
            self.foreign_key = True
            return
        self.present, self.value = True, v

    def truth(self, I):
        return True

    def method(self, I, name, args, kw):
        if name == "get":
            if self.contains(I, args[0]):
                return self.getitem(I, args[0])
            return args[1] if len(args) > 1 else None
        if name == "pop":
            raise OutOfSubset("cache.pop")
        raise OutOfSubset(f"cache.{name}")


def method_path(I: Interp, ps: PathState, meth: str) -> Dict[str, Any]:
    I.ps = ps
    I.call_depth = 0
    obl: List[Dict[str, Any]] = []

    def ob(clause, ok, detail=""):
        obl.append({"clause": f"ExpressionParser.{meth}/{clause}", "ok": bool(ok), "detail": detail if not ok else ""})

    text = IdStr(z3.Int("text"))
    parser = I.new_obj(["ExpressionParser"], label="parser")
    tokenizer = I.new_obj(["Tokenizer"], label="tokenizer")
    parser.cur["tokenizer"] = tokenizer
    handed_out: List[ListObj] = []

    def canonical_tokens():
        toks = []
        for i in range(2):
            t = I.new_obj(["Token"], label=f"t{i}")
            t.cur["type"] = 1 if i == 0 else 8192
            t.cur["value"] = IdStr(z3.Int(f"tokval{i}")) if i == 0 else ""
            toks.append(t)
        lst = ListObj(toks)
        lst.ghost = "tokens_of(text)"
        return lst

    def canonical_tree():
        t = I.new_obj(["AddExpression"], label="tree_of(text)")
        return t

    tcache = SymCache(ps, "_tokens_cache", text, canonical_tokens)
    pcache = SymCache(ps, "_parse_cache", text, canonical_tree)
    parser.cur["_tokens_cache"] = tcache
    parser.cur["_parse_cache"] = pcache
    fresh_tokenize_calls = []
    parse_calls = []
    outcome = {"parse_raises": None}

    def c_tokenizer_tokenize(I2, args, kw, fv):
        fresh_tokenize_calls.append(args[1])
        lst = canonical_tokens()
        lst.ghost = "tokens_of(arg)" if args[1] is text else "tokens_of(other)"
        return lst

    def c__parse(I2, args, kw, fv):
        lst = args[1]
        parse_calls.append(lst)
        # _parse consumes the list it is given (pop(0) until EOF)
        if isinstance(lst, ListObj):
            del lst.items[:]
        if outcome["parse_raises"] is None:
            outcome["parse_raises"] = ps.choose(2, "parse-fails") == 1
        if outcome["parse_raises"]:
            I2.raise_("InvalidSyntax", "syntax", site="_parse")
        return canonical_tree()

    saved = dict(I.contracts)
    I.contracts["Tokenizer.tokenize"] = c_tokenizer_tokenize
    I.contracts["ExpressionParser._parse"] = c__parse
    ret = None
    raised = None
    try:
        try:
            if meth == "clear_cache":
                ret = I.call_method(parser, "clear_cache", [], {})
            else:
                ret = I.call_method(parser, meth, [text], {})
        except PyRaise as pr:
            raised = pr
    finally:
        I.contracts = saved
    if meth == "clear_cache":
        ok = all(isinstance(parser.cur.get(c), DictObj) and not parser.cur[c].items for c in ("_tokens_cache", "_parse_cache"))
        ob("both-caches-empty-afterwards", ok and raised is None, f"{parser.cur.get('_tokens_cache')} {parser.cur.get('_parse_cache')}")
        return {"obligations": obl, "labels": list(ps.labels)}
    # ---- caches are keyed by the text itself
    ob("caches-keyed-by-the-input-text", not tcache.foreign_key and not pcache.foreign_key, "a cache was consulted or filled under a key other than the input text")
    # ---- the list given to _parse / returned to the caller is never a cached object
    cached_lists = [v for (k, v) in tcache.stores] + ([tcache.value] if tcache.value is not None else [])
    for lst in parse_calls:
        ob("_parse-gets-a-private-copy", isinstance(lst, ListObj) and all(lst is not c for c in cached_lists), "the cached token list itself is consumed by _parse")
    if meth == "tokenize" and raised is None:
        ob("returns-an-independent-copy", isinstance(ret, ListObj) and all(ret is not c for c in cached_lists), "the cached list object is handed out")
        if tcache.value is not None and isinstance(ret, ListObj):
            ob("copy-has-the-cached-tokens", len(ret.items) == len(tcache.value.items) and all(a is b for a, b in zip(ret.items, tcache.value.items)), "token list differs from the cached one")
    # ---- INV afterwards
    if tcache.present:
        v = tcache.value
        ok = isinstance(v, ListObj) and getattr(v, "ghost", "") in ("tokens_of(text)", "tokens_of(arg)") and len(v.items) == 2
        ob("INV/_tokens_cache-entry-is-the-untouched-token-list", ok, f"entry {v!r} ({getattr(v, 'ghost', None)})")
    for k, v in tcache.stores:
        ob("INV/_tokens_cache-stores-only-fresh-tokenizer-output", isinstance(v, ListObj) and getattr(v, "ghost", "") == "tokens_of(arg)", repr(v))
    if meth == "parse":
        if raised is not None:
            ob("failed-parse-raises-the-parse-exception", raised.exc.clsname == "InvalidSyntax" and not raised.implicit, f"{raised.exc.clsname} at {raised.site}")
            ob("INV/failed-parse-writes-no-_parse_cache-entry", not pcache.stores, f"stored {pcache.stores}")
        else:
            ob("returns-the-tree-of-the-text", isinstance(ret, Obj) and ret.label == "tree_of(text)", repr(ret))
            for k, v in pcache.stores:
                ob("INV/_parse_cache-stores-the-returned-tree", v is ret, repr(v))
        ob("tokenizes-at-most-once-and-only-this-text", len(fresh_tokenize_calls) <= 1 and all(a is text for a in fresh_tokenize_calls), str(fresh_tokenize_calls))
    elif raised is not None:
        ob("no-raise", False, f"{raised.exc.clsname} at {raised.site}")
    return {"obligations": obl, "labels": list(ps.labels)}


def run(tier: str, seed: int) -> int:
    R = Result("C12", tier, seed)
    I = Interp(REPO)
    try:
        I.load_module("mathy_core.parser")
    except Exception as e:  # noqa: BLE001
        R.engine_errors.append(f"cannot load sources: {e!r}")
        return R.finish()
    # opaque string operations (a key derived from the text is some other string)
    n_obl = n_ok = 0
    per = {}
    samples = []
    # the contract used below for Tokenizer.tokenize ("a function of the text, fresh list") is an obligation here too
    from .c11 import tokenizer_stateless

    try:
        I.load_module("mathy_core.tokenizer")
        for ob in tokenizer_stateless(I, REPO):
            if ob.get("undecided"):
                R.undecided.append(f"tokenizer: {ob['detail']}")
                continue
            n_obl += 1
            per["Tokenizer.tokenize"] = per.get("Tokenizer.tokenize", 0) + 1
            if ob["ok"]:
                n_ok += 1
            else:
                R.violation(f"obligation C12/{ob['clause']} failed: {ob['detail'][:240]}", {"obligation": ob}, False)
    except OutOfSubset as e:
        R.undecided.append(f"tokenizer: out-of-subset: {e}")
    # ... and "_parse is a function of its token list": no attribute of the parser survives into the next call
    from .parse_family import sticky_state_analysis

    for ob in sticky_state_analysis(REPO):
        n_obl += 1
        per["_parse"] = per.get("_parse", 0) + 1
        if ob["ok"]:
            n_ok += 1
        else:
            R.violation(f"obligation C12/{ob['clause']} failed: {ob['detail'][:240]}", {"obligation": ob}, False)
    for meth in ("tokenize", "parse", "clear_cache"):
        try:
            outs = explore(lambda ps, m=meth: method_path(I, ps, m))
        except OutOfSubset as e:
            R.undecided.append(f"{meth}: out-of-subset: {e}")
            continue
        for o in outs:
            if o.error is not None:
                R.undecided.append(f"{meth}: out-of-subset: {o.error}")
                continue
            for ob in o.result["obligations"]:
                n_obl += 1
                per[meth] = per.get(meth, 0) + 1
                if ob["ok"]:
                    n_ok += 1
                    if len(samples) < 3:
                        samples.append({"obligation": f"C12/{ob['clause']}", "path": o.result["labels"], "status": "proved"})
                else:
                    R.violation(f"obligation C12/{ob['clause']} failed on path {o.result['labels']}: {ob['detail'][:240]}", {"obligation": ob, "path": o.result["labels"]}, False)
        if per.get(meth, 0) == 0 and not any(u.startswith(meth) for u in R.undecided):
            R.engine_errors.append(f"vacuous: no obligation for {meth}")
    p = run_venv("parse_tierb.py", ["c12", tier], timeout=3000)
    bounded = {}
    if p.returncode not in (0, 1):
        R.engine_errors.append("tier-B failed: " + p.stderr[-300:])
    else:
        bounded = tierb_json(p, R)
        for f in bounded.get("failures", [])[:6]:
            R.violation(f"bounded check on real code: {f['clause']}: {f['detail'][:300]}", {"failure": f}, True)
    R.level = "proof" if not R.undecided and n_ok == n_obl else "other"
    from . import engine_diff

    diff_summary = engine_diff.report(R, engine_diff.parse_diff(), "parser and tokenizer on concrete strings")
    R.coverage = {
        "engine_differential": diff_summary,
        "obligations": n_obl,
        "discharged": n_ok,
        "checker_cmd": f"/verif/bin/check C12 --tier {tier}",
        "trusted_base": ["pyvc symbolic executor", "_parse is a function of its token list and consumes it (sticky-state analysis: an obligation here too; C03/C10 enumeration)", "Tokenizer.tokenize is a function of the text and returns a list created by the call (obligations Tokenizer/stateless/*, shared with C11); its segmentation is proved in C11",
                         "induction over the call history (meta-argument; its step is the invariant-preservation obligations)",
                         "scope: Token objects and cached tree objects are shared with callers; mutating those objects is outside the property's history alphabet"],
        "obligations_per_method": per,
        "functions_under_contract": ["ExpressionParser.tokenize", "ExpressionParser.parse", "ExpressionParser.clear_cache"],
        "samples": samples,
        "explanation": "class invariant preserved by every public method on normal and exceptional exit, for an arbitrary text and arbitrary cache state",
        "bounded": {k: v for k, v in bounded.items() if k != "failures"},
    }
    R.assumptions = ["strings are compared by identity of the symbolic text: any key computed from the text is treated as a different string"]
    return R.finish()
