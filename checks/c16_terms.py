"""C16, first clause (order and grouping invariance of has_like_terms): `util.get_terms` as a fold
step over the in-order traversal, on the real source.

The traversal is replaced by its contract (proved in C14): the visitor is called once per node, in
in-order, until it returns STOP.  The closure that `get_terms` hands to the traversal is executed for
one arbitrary node (any kind, children present or not) on an arbitrary accumulator; obligations:
  * it traverses the root of the expression in in-order, with no depth/data override;
  * step: the visitor never stops the traversal - whatever the node is - and appends exactly the
    operands of an addition/subtraction that are not themselves additions/subtractions (left first),
    nothing for any other node, and writes to no node.
With these, the collected list is the sequence of maximal non-additive operands of the additive
skeleton - as a multiset independent of the order and grouping of the added terms (meta-argument:
re-ordering / re-grouping permutes the leaves of the skeleton).  A visitor that aborts the traversal
at some kind of node (everything after it in in-order is lost, so the answer depends on the position
of that addend) fails `step/never-stops`.
"""
from __future__ import annotations

from typing import Any, Dict, List

import z3

from pyvc.explore import explore
from pyvc.interp import Interp, PathState
from pyvc.treeheap import LinksHeap
from pyvc.values import ListObj, Num, Obj, OutOfSubset, PyRaise

KINDS = ("AddExpression", "SubtractExpression", "MultiplyExpression", "DivideExpression", "PowerExpression", "NegateExpression",
         "SgnExpression", "AbsExpression", "FactorialExpression", "ConstantExpression", "VariableExpression")
ADDSUB = ("AddExpression", "SubtractExpression")


def _kind(I, o):
    I.split_kinds_each(o)
    return next(iter(o.kinds))


def _path(I: Interp, ps: PathState) -> Dict[str, Any]:
    I.ps = ps
    I.call_depth = 0
    heap = LinksHeap(I, kinds=KINDS)
    expr = heap.new_input("expression")
    root = heap.new_input("root")
    obl: List[Dict[str, Any]] = []
    rec: Dict[str, Any] = {}

    def ob(clause, ok, detail=""):
        obl.append({"clause": f"get_terms/{clause}", "ok": bool(ok), "detail": "" if ok else detail})

    def recorder(which):
        def c(I2, args, kw, fv):
            rec["which"], rec["self"] = which, args[0]
            rec["fn"] = args[1] if len(args) > 1 else kw.get("visit_fn")
            rec["extra"] = (list(args[2:]), dict(kw))
            return None

        return c

    saved = dict(I.contracts)
    I.contracts["BinaryTreeNode.get_root"] = lambda I2, args, kw, fv: root
    for m in ("visit_preorder", "visit_inorder", "visit_postorder"):
        I.contracts[f"BinaryTreeNode.{m}"] = recorder(m)
    try:
        f = I.get_func("mathy_core.util", "get_terms")
        try:
            I.call_function(f, [expr], {}, use_contract=False)
        except PyRaise as pr:
            ob("no-raise", False, f"raised {pr.exc.clsname} at {pr.site}")
            return {"obligations": obl, "labels": list(ps.labels)}
        ob("traverses-the-root-inorder", rec.get("which") == "visit_inorder" and rec.get("self") is root, f"{rec.get('which')} on {rec.get('self')}")
        ob("no-depth-or-data-override", not rec.get("extra", ([], {}))[0] and not rec.get("extra", ([], {}))[1], str(rec.get("extra")))
        fn = rec.get("fn")
        if fn is None:
            return {"obligations": obl, "labels": list(ps.labels)}
        acc = _get_cell(fn.env, "results")
        ob("accumulator-is-a-list", isinstance(acc, ListObj), repr(acc))
        if not isinstance(acc, ListObj):
            return {"obligations": obl, "labels": list(ps.labels)}
        marker = I.new_obj(["object"], label="prefix")
        acc.items[:] = [marker]
        n = heap.new_input("visited")
        w0 = len(ps.writes)
        try:
            r = I.call(fn, [n, Num(z3.Int("d")), None], {})
        except PyRaise as pr:
            ob("step/no-raise", False, f"raised {pr.exc.clsname} at {pr.site}")
            return {"obligations": obl, "labels": list(ps.labels)}
        acc2 = _get_cell(fn.env, "results")
        ob("step/accumulator-kept", acc2 is acc, "closure rebinds the result list")
        ob("step/never-stops", r is None, f"returned {r!r} for a {sorted(n.kinds)} node")
        k = _kind(I, n)
        want = [marker]
        if k in ADDSUB:
            for side in ("left", "right"):
                c = I.getattr(n, side)
                if isinstance(c, Obj) and _kind(I, c) not in ADDSUB:
                    want.append(c)
            ob("step/appends-the-non-additive-operands-left-first", acc.items == want, f"{acc.items} expected {want}")
        else:
            ob("step/other-nodes-append-nothing", acc.items == want, f"{k}: {acc.items}")
        bad = [(str(o), fld) for (o, fld, _, _) in ps.writes[w0:] if isinstance(o, Obj) and o.lazy]
        ob("step/writes-no-node", not bad, str(bad[:3]))
    finally:
        I.contracts = saved
    return {"obligations": obl, "labels": list(ps.labels)}


def _get_cell(env, name):
    e = env
    while e is not None:
        if name in e.vars:
            return e.vars[name]
        e = e.parent
    return None


def run_terms(repo) -> Dict[str, Any]:
    I = Interp(repo)
    out = {"obligations": [], "errors": []}
    try:
        I.load_module("mathy_core.expressions")
        I.load_module("mathy_core.util")
    except Exception as e:  # noqa: BLE001
        out["errors"].append(f"get_terms: cannot load sources: {e!r}")
        return out
    try:
        outs = explore(lambda ps: _path(I, ps))
    except OutOfSubset as e:
        out["errors"].append(f"get_terms: out-of-subset: {e}")
        return out
    for o in outs:
        if o.error is not None:
            out["errors"].append(f"get_terms: out-of-subset: {o.error}")
            continue
        for ob in o.result["obligations"]:
            out["obligations"].append(dict(ob, labels=o.result["labels"]))
    if not out["obligations"] and not out["errors"]:
        out["errors"].append("get_terms: vacuous, no obligation")
    return out


if __name__ == "__main__":
    import json
    import sys
    from collections import Counter

    from .common import REPO

    r = run_terms(REPO)
    print(json.dumps({"errors": r["errors"], "n": len(r["obligations"]), "clauses": Counter(o["clause"] for o in r["obligations"]),
                      "failed": [o for o in r["obligations"] if not o["ok"]][:5]}, indent=1, default=str))
    sys.exit(0 if not r["errors"] and all(o["ok"] for o in r["obligations"]) else 1)
