"""C13: cloning yields an identical, independent tree and locates the cloned node.

clone (BinaryTreeNode / MathExpression / ConstantExpression / VariableExpression) is proved by
structural induction: the body is executed on a symbolic node of each concrete class (the real
`self.__class__()` constructor chain is executed from source); recursive calls on the children are
replaced by the contract being proved.  clone_from_root is proved against the contract of clone.
Precondition: LINKS + operand on either side for one-operand nodes (public constructors allow it).
"""
from __future__ import annotations

import json
from typing import Any, Dict, List

import z3

from pyvc.explore import explore
from pyvc.interp import Interp, PathState
from pyvc.treeheap import LinksHeap
from pyvc.values import IdStr, Num, Obj, OutOfSubset, PyRaise

from .common import REPO, Result, load_known, run_venv, tierb_json

EXPR_KINDS = (
    "NegateExpression", "FactorialExpression", "AbsExpression", "SgnExpression",
    "EqualExpression", "AddExpression", "SubtractExpression", "MultiplyExpression", "DivideExpression", "PowerExpression",
    "ConstantExpression", "VariableExpression",
)
UNARY = EXPR_KINDS[:4]
def clone_quals(I):
    """Every definition of `clone` in the node hierarchy (read from the current source)."""
    return [f"{c.name}.clone" for c in I.classes.values() if "clone" in c.methods and (c.name == "BinaryTreeNode" or any(b.name == "BinaryTreeNode" for b in c.mro()))]


def _extra_fields():
    def value(I, o):
        return Num(z3.Real(f"cval_{o.oid}"), (z3.Bool(f"cfloat_{o.oid}"), z3.Bool(f"cnp_{o.oid}")))

    def identifier(I, o):
        return IdStr(z3.Int(f"ident_{o.oid}"))

    def child_on_left(I, o):
        return I.ps.choose(2, "child_on_left") == 1

    def cloned_target(I, o):
        # arbitrary bookkeeping state: None, or some string (compared with the node's own path)
        c = I.ps.choose(2, "cloned_target")
        return None if c == 0 else IdStr(z3.Int(f"ctarget_{o.oid}"))

    return {
        "value": value,
        "identifier": identifier,
        "child_on_left": child_on_left,
        "cloned_target": cloned_target,
        "cloned_node": lambda I, o: None,
        "_changed": lambda I, o: z3.Bool(f"changed_{o.oid}"),
        "_rendering_change": lambda I, o: False,
    }


def clone_path(I: Interp, ps: PathState, kind: str) -> Dict[str, Any]:
    I.ps = ps
    I.call_depth = 0
    I.classes["BinaryTreeNode"].attrs["_idCounter"] = 0
    heap = LinksHeap(I, kinds=EXPR_KINDS, extra_fields=_extra_fields())
    me = heap.new_input("self", kinds=(kind,))
    obl: List[Dict[str, Any]] = []
    made: Dict[int, Obj] = {}

    def ob(clause, ok, detail=""):
        obl.append({"clause": f"{kind}.clone/{clause}", "ok": bool(ok), "detail": detail})

    def path_code(o):
        return IdStr(z3.Int(f"pathcode_{o.oid}"))

    def c_path_to_root(I2, args, kw, fv):
        return path_code(args[0])

    def contract(I2, args, kw, fv):
        # induction hypothesis on a child: fresh isomorphic copy, parent None; bookkeeping effect on
        # the nodes below is confined to their cloned_node fields
        o = args[0]
        if o is me:  # super().clone() on the receiver itself: part of the body under proof
            return I2.call_function(fv, args, kw, use_contract=False)
        ob("pre-of-callee/child", isinstance(o, Obj) and o.init.get("parent") is me, f"recursive clone of {o}")
        c = I2.new_obj(o.kinds, label=f"copy({o.label})")
        c.ghost["clone_of"] = o
        c.cur["parent"] = None
        c.cur["left"] = None  # contents are opaque: only identity, kind and parent matter here
        c.cur["right"] = None
        made[id(o)] = c
        return c

    saved = dict(I.contracts)
    for q in clone_quals(I):
        I.contracts[q] = contract
    I.contracts["MathExpression.path_to_root"] = c_path_to_root
    first_oid = ps.next_oid
    try:
        f = I.resolve_member(me, "clone")[1]
        try:
            ret = I.call_function(f, [me], {}, use_contract=False)
        except PyRaise as pr:
            ob("no-raise", False, f"raised {pr.exc.clsname} at {pr.site}")
            return {"obligations": obl, "labels": list(ps.labels)}
    finally:
        I.contracts = saved
    ob("result-is-fresh-object", isinstance(ret, Obj) and ret.fresh and ret.oid >= first_oid and ret is not me, repr(ret))
    if not isinstance(ret, Obj):
        return {"obligations": obl, "labels": list(ps.labels)}
    ob("same-class", ret.kinds == me.kinds, f"{ret.clsname} vs {me.clsname}")
    same_id = I.eq(ret.cur.get("id"), I.getattr(me, "id"))
    ob("same-id", same_id is True, f"{ret.cur.get('id')} vs {me.cur.get('id')}")
    ob("parent-none", ret.cur.get("parent", "unset") is None, repr(ret.cur.get("parent", "unset")))
    for side in ("left", "right"):
        orig = I.getattr(me, side)
        got = ret.cur.get(side)
        if orig is None:
            ob(f"{side}/absent-stays-absent", got is None, repr(got))
        else:
            want = made.get(id(orig))
            ob(f"{side}/is-copy-of-child", want is not None and got is want, f"{got} vs copy of {orig}")
            if isinstance(got, Obj):
                ob(f"{side}/parent-link", got.cur.get("parent") is ret, repr(got.cur.get("parent")))
    if kind == "ConstantExpression":
        v0 = I.getattr(me, "value")
        v1 = ret.cur.get("value")
        ok = isinstance(v1, Num) and z3.is_true(z3.simplify(v1.v == v0.v)) and _same_tag(v0.tag, v1.tag)
        ob("same-value-and-number-type", ok, f"{v1} vs {v0}")
    if kind == "VariableExpression":
        ob("same-identifier", I.eq(ret.cur.get("identifier"), I.getattr(me, "identifier")) is True, repr(ret.cur.get("identifier")))
    if kind in UNARY:
        col0 = I.getattr(me, "child_on_left")
        ob("same-operand-side", ret.cur.get("child_on_left") is col0, f"child_on_left {ret.cur.get('child_on_left')} vs {col0}")
    # bookkeeping used by clone_from_root
    if kind != "BinaryTreeNode":
        tgt = I.getattr(me, "cloned_target")
        if tgt is None:
            ob("cloned_node/untouched-when-no-target", me.cur.get("cloned_node") is None, repr(me.cur.get("cloned_node")))
        else:
            match = I.eq(tgt, path_code(me))
            m = ps.decide(match, "target-matches") if not isinstance(match, bool) else match
            if m:
                ob("cloned_node/set-to-copy-when-target-matches", me.cur.get("cloned_node") is ret, repr(me.cur.get("cloned_node")))
            else:
                ob("cloned_node/untouched-when-target-differs", me.cur.get("cloned_node") is None, repr(me.cur.get("cloned_node")))
    bad = [(str(o), f) for (o, f, _, _) in ps.writes if isinstance(o, Obj) and not o.fresh and f != "cloned_node"]
    ob("frame/original-not-modified", not bad, str(bad[:3]))
    return {"obligations": obl, "labels": list(ps.labels)}


def _same_tag(a, b):
    def same(x, y):
        if isinstance(x, bool) or isinstance(y, bool):
            return x is y
        return z3.is_true(z3.simplify(x == y))

    return same(a[0], b[0]) and same(a[1], b[1])


def clone_from_root_path(I: Interp, ps: PathState) -> Dict[str, Any]:
    """clone_from_root() (default argument) against the contracts of get_root, path_to_root, clone."""
    I.ps = ps
    I.call_depth = 0
    heap = LinksHeap(I, kinds=EXPR_KINDS, extra_fields=_extra_fields())
    me = heap.new_input("self")
    obl: List[Dict[str, Any]] = []
    state: Dict[str, Any] = {}

    def ob(clause, ok, detail=""):
        obl.append({"clause": f"clone_from_root/{clause}", "ok": bool(ok), "detail": detail})

    root = heap.new_input("root")
    copy_of_me = I.new_obj(me.kinds, label="copy(self)")
    copy_root = I.new_obj(root.kinds, label="copy(root)")

    def c_get_root(I2, args, kw, fv):
        state["root_of"] = args[0]
        return root

    def c_path(I2, args, kw, fv):
        return IdStr(z3.Int(f"pathcode_{args[0].oid}"))

    def c_clone(I2, args, kw, fv):
        # contract of clone on the root: complete isomorphic copy; every node whose cloned_target equals
        # its own path gets cloned_node = its copy (precondition WF5: only the receiver can match)
        state["cloned"] = args[0]
        tgt = me.cur.get("cloned_target")
        if tgt is not None and I2.eq(tgt, c_path(I2, [me], {}, None)) is True:
            me.cur["cloned_node"] = copy_of_me
            ps.writes.append((me, "cloned_node", None, copy_of_me))
        return copy_root

    saved = dict(I.contracts)
    I.contracts["BinaryTreeNode.get_root"] = c_get_root
    I.contracts["MathExpression.path_to_root"] = c_path
    for q in clone_quals(I):
        I.contracts[q] = c_clone
    try:
        f = I.get_func("mathy_core.expressions", "MathExpression.clone_from_root")
        try:
            ret = I.call_function(f, [me], {}, use_contract=False)
        except PyRaise as pr:
            ob("no-raise", False, f"raised {pr.exc.clsname} at {pr.site}")
            return {"obligations": obl, "labels": list(ps.labels)}
    finally:
        I.contracts = saved
    ob("clones-the-root-of-the-receiver", state.get("root_of") is me and state.get("cloned") is root, f"{state}")
    ob("returns-copy-of-receiver", ret is copy_of_me, repr(ret))
    ob("bookkeeping-reset", me.cur.get("cloned_node", "unset") is None and me.cur.get("cloned_target", "unset") is None,
       f"cloned_node={me.cur.get('cloned_node')} cloned_target={me.cur.get('cloned_target')}")
    bad = [(str(o), f) for (o, f, _, _) in ps.writes if isinstance(o, Obj) and not o.fresh and f not in ("cloned_node", "cloned_target")]
    ob("frame/original-not-modified", not bad, str(bad[:3]))
    return {"obligations": obl, "labels": list(ps.labels)}


def run(tier: str, seed: int) -> int:
    R = Result("C13", tier, seed)
    known = load_known()
    I = Interp(REPO)
    try:
        I.load_module("mathy_core.tree")
        I.load_module("mathy_core.expressions")
    except Exception as e:  # noqa: BLE001
        R.engine_errors.append(f"cannot load sources: {e!r}")
        return R.finish()
    n_obl = n_ok = 0
    samples = []
    per_fn: Dict[str, int] = {}
    nviol = 0
    jobs = [(f"{k}.clone", (lambda ps, k=k: clone_path(I, ps, k))) for k in EXPR_KINDS] + [("clone_from_root", lambda ps: clone_from_root_path(I, ps))]
    for name, fn in jobs:
        try:
            outs = explore(fn)
        except OutOfSubset as e:
            R.undecided.append(f"{name}: out-of-subset: {e}")
            continue
        for o in outs:
            if o.error is not None:
                R.undecided.append(f"{name}: out-of-subset: {o.error}")
                continue
            for ob in o.result["obligations"]:
                n_obl += 1
                per_fn[name] = per_fn.get(name, 0) + 1
                if ob["ok"]:
                    n_ok += 1
                    if len(samples) < 3 and "is-copy-of-child" in ob["clause"]:
                        samples.append({"obligation": f"C13/{ob['clause']}", "path": o.result["labels"], "status": "proved"})
                    continue
                fail = {"cfg": name, "clause": ob["clause"], "shape": {}, "cases": [], "detail": ob["detail"]}
                from .common import match_known

                k = match_known(known, "C13", fail)
                if k is not None:
                    R.known(k)
                    continue
                nviol += 1
                if nviol <= 6:
                    R.violation(f"obligation C13/{ob['clause']} failed on path {o.result['labels']}: {ob['detail'][:240]}",
                                {"obligation": ob, "path": o.result["labels"]}, False)
        if per_fn.get(name, 0) == 0 and not any(u.startswith(name) for u in R.undecided):
            R.engine_errors.append(f"vacuous: no obligation for {name}")
    n = 5 if tier == "quick" else 6
    p = run_venv("clone_tierb.py", [str(n)], timeout=3000)
    bounded = {}
    if p.returncode not in (0, 1):
        R.engine_errors.append("tier-B failed: " + p.stderr[-300:])
    else:
        bounded = tierb_json(p, R)
        from .common import match_known

        for f in bounded.get("failures", []):
            k = match_known(known, "C13", {"cfg": "tierb", "clause": f["clause"], "shape": {}, "cases": [], "detail": f["detail"]})
            if k is not None:
                R.known(k)
                continue
            nviol += 1
            if nviol <= 8:
                R.violation(f"bounded check on real code: {f['clause']}: {f['detail'][:200]}", {"failure": f}, True)
    R.level = "proof" if not R.undecided else "other"
    from . import engine_diff

    diff_summary = engine_diff.report(R, engine_diff.methods_diff(), "evaluate / clone / traversals / rotate / term functions on concrete trees")
    R.coverage = {
        "engine_differential": diff_summary,
        "obligations": n_obl,
        "discharged": n_ok,
        "checker_cmd": f"/verif/bin/check C13 --tier {tier}",
        "trusted_base": [
            "pyvc symbolic executor",
            "LINKS invariant; for clone_from_root additionally WF item 5: no node other than the receiver has cloned_target equal to its own path",
            "path_to_root treated as an injective-enough opaque string of the node's ancestor classes (its loop is not verified)",
            "'evaluates and prints identically' and 'changing either never affects the other' follow from isomorphism + freshness of every copy (meta-argument)",
        ],
        "obligations_per_function": per_fn,
        "functions_under_contract": ["BinaryTreeNode.clone", "MathExpression.clone", "ConstantExpression.clone", "VariableExpression.clone", "MathExpression.clone_from_root", "all __init__ chains of the 12 node classes (executed from source)"],
        "samples": samples,
        "explanation": "structural induction per concrete class; the real constructor chain is executed; recursive calls use the contract",
        "bounded": {k: v for k, v in bounded.items() if k != "failures"},
    }
    R.assumptions = ["clone_from_root(node) with node is not self is outside the property (it speaks of cloning via an inner node, i.e. the default call)"]
    return R.finish()
