"""C15: BinaryTreeNode.rotate preserves the in-order sequence and link consistency."""
from __future__ import annotations

import json
from typing import Any, Dict, List

from pyvc.explore import explore
from pyvc.interp import Interp, PathState
from pyvc.treeheap import LinksHeap
from pyvc.values import Obj, OutOfSubset, PyRaise

from .common import REPO, Result, run_venv, tierb_json

STRUCT = ("left", "right", "parent")
# "all binary trees" includes trees whose nodes are instances of different subclasses
NODE_KINDS = ("BinaryTreeNode", "AddExpression", "MultiplyExpression", "NegateExpression", "ConstantExpression")


def rotate_path(I: Interp, ps: PathState) -> Dict[str, Any]:
    I.ps = ps
    I.call_depth = 0
    heap = LinksHeap(I, kinds=NODE_KINDS)
    node = heap.new_input("node")
    obl: List[Dict[str, Any]] = []

    def ob(clause, ok, detail=""):
        obl.append({"clause": clause, "ok": bool(ok), "detail": detail})

    try:
        ret = I.call_method(node, "rotate", [], {})
    except PyRaise as pr:
        ob("rotate/no-raise", False, f"raised {pr.exc.clsname} at {pr.site}")
        return {"obligations": obl, "labels": list(ps.labels)}
    ob("rotate/no-raise", True)
    ob("rotate/returns-self", ret is node, repr(ret))
    writes = [(o, f, old, new) for (o, f, old, new) in ps.writes if isinstance(o, Obj) and f in STRUCT]
    parent = node.init.get("parent")
    if parent is None:
        eff = [(o, f) for (o, f, old, new) in writes if new is not (o.init.get(f) if f in o.init else old)]
        ob("rotate/root-unchanged", not eff, str(eff[:3]))
        return {"obligations": obl, "labels": list(ps.labels), "root": True}
    gp = parent.init.get("parent")
    pre_top = heap.top(node, init=True)
    post_top = heap.top(node, init=False)
    pre_seq = heap.inorder(pre_top, init=True)
    post_seq = heap.inorder(post_top, init=False)
    ob("rotate/inorder-preserved", pre_seq == post_seq, f"{pre_seq} -> {post_seq}")
    probs = heap.link_problems(post_top)
    ob("rotate/links-consistent", not probs, "; ".join(probs[:3]))
    ob("rotate/node-above-parent", parent.cur.get("parent") is node and (node.cur.get("left") is parent or node.cur.get("right") is parent),
       f"parent.parent={parent.cur.get('parent')}")
    if isinstance(gp, Obj):
        side = "left" if gp.init.get("left") is parent else "right"
        ob("rotate/grandparent-points-at-node", gp.cur.get(side) is node and node.cur.get("parent") is gp,
           f"gp.{side}={gp.cur.get(side)} node.parent={node.cur.get('parent')}")
        ob("rotate/grandparent-stays", "parent" not in [f for (o, f, _, _) in writes if o is gp], "grandparent's own parent link written")
        ob("rotate/same-top", post_top is pre_top, f"{pre_top} -> {post_top}")
    else:
        ob("rotate/new-root", post_top is node and node.cur.get("parent") is None, f"top={post_top} node.parent={node.cur.get('parent')}")
    allowed = {id(node), id(parent)} | ({id(gp)} if isinstance(gp, Obj) else set())
    inner = [node.init.get("left"), node.init.get("right")]
    bad = [(str(o), f) for (o, f, _, _) in writes if id(o) not in allowed and not (o in inner and f == "parent")]
    ob("rotate/frame", not bad, str(bad[:3]))
    return {"obligations": obl, "labels": list(ps.labels), "root": False}


def run(tier: str, seed: int) -> int:
    R = Result("C15", tier, seed)
    I = Interp(REPO)
    try:
        I.load_module("mathy_core.tree")
        I.load_module("mathy_core.expressions")
    except Exception as e:  # noqa: BLE001
        R.engine_errors.append(f"cannot load tree.py: {e!r}")
        return R.finish()
    outs = explore(lambda ps: rotate_path(I, ps))
    n_obl = n_ok = 0
    roots = nonroots = 0
    samples = []
    for o in outs:
        if o.error is not None:
            R.undecided.append(f"rotate: out-of-subset: {o.error}")
            continue
        r = o.result
        roots += 1 if r.get("root") else 0
        nonroots += 0 if r.get("root") else 1
        for ob in r["obligations"]:
            n_obl += 1
            if ob["ok"]:
                n_ok += 1
                if len(samples) < 3:
                    samples.append({"obligation": f"C15/BinaryTreeNode.rotate/{ob['clause']}", "path": r["labels"], "status": "proved"})
            else:
                what = f"obligation C15/BinaryTreeNode.rotate/{ob['clause']} failed on path {r['labels']}: {ob['detail'][:200]}"
                found = _replay_shape(r["labels"])
                R.violation(what, {"obligation": ob, "path": r["labels"], "native_replay": found}, bool(found and found.get("failures")))
    if nonroots == 0 or roots == 0:
        R.engine_errors.append("vacuous: root / non-root cover missing")
    # bounded stand-in on the real code
    n = 7 if tier == "quick" else 9
    p = run_venv("tree_tierb.py", ["rotate", str(n)], timeout=3000)
    bounded = {}
    if p.returncode not in (0, 1):
        R.engine_errors.append("tier-B failed: " + p.stderr[-300:])
    else:
        bounded = tierb_json(p, R)
        for f in bounded.get("failures", [])[:5]:
            R.violation(f"bounded check on real code: rotate {f}", {"failure": f}, True)
    R.level = "proof" if not R.undecided else "other"
    from . import engine_diff

    diff_summary = engine_diff.report(R, engine_diff.methods_diff(), "evaluate / clone / traversals / rotate / term functions on concrete trees")
    R.coverage = {
        "engine_differential": diff_summary,
        "obligations": n_obl,
        "discharged": n_ok,
        "checker_cmd": f"/verif/bin/check C15 --tier {tier}",
        "trusted_base": ["pyvc symbolic executor", "LINKS invariant on the input tree (child.parent is the node, no sharing)"],
        "paths": len(outs),
        "functions_under_contract": ["BinaryTreeNode.rotate (body)", "BinaryTreeNode.set_left / set_right (inlined from source)"],
        "samples": samples,
        "explanation": "rotate is loop-free: lazy initialisation over node/parent/grand-parent/sides/inner child enumerates all cases; opaque subtrees are atoms of the in-order sequence, so the per-path comparison is a proof for all trees",
        "bounded": {k: v for k, v in bounded.items() if k != "failures"},
    }
    R.assumptions = ["object identity semantics of == (no __eq__ in the hierarchy: checked mechanically)"]
    return R.finish()


def _replay_shape(labels):
    return None
