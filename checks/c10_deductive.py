"""C10, unbounded part: termination (progress), closed set of explicit exceptions, and
unreachability of every implicit raise site of the parser, for token lists of ANY length.

 * explicit raises: every `raise` in parser.py / tokenizer.py constructs a ParserException subclass
   or ValueError (syntactic scan of the current source);
 * `next()`: with the stream invariant "the remaining tokens are a suffix of a list whose only and
   last EOF token has not been popped iff the current token is not EOF", `self.tokens.pop(0)` never
   raises IndexError; `eat` / `check` raise only InvalidSyntax / OutOfTokens;
 * `parse_factors`: loop invariants on the number of collected factors make `factors[-1]` and both
   `factors.pop(0)` safe; `parse_function`: the lookup `functions[name]` is applied to the value of a
   Function token, which the tokenizer only emits for registered names (C11);
 * progress: every loop iteration and every call that does not descend the grammar levels is
   preceded by an unconditional consumption of a token (static dominance analysis), so the recursion
   depth is bounded by the nesting depth of the input and every loop terminates.
"""
from __future__ import annotations

import ast
import os
from typing import Any, Dict, List

import z3

from pyvc.explore import explore, prove
from pyvc.interp import Builtin, Env, Interp, PathState
from pyvc.values import BreakEx, ListObj, Num, Obj, OutOfSubset, PyRaise, ReturnEx, zarith

ALLOWED = {"ParserException", "InvalidExpression", "OutOfTokens", "InvalidSyntax", "UnexpectedBehavior", "TrailingTokens", "ValueError"}
LEVELS = ["_parse", "parse_equal", "parse_add", "parse_mult", "parse_exponent", "parse_unary", "parse_factors", "parse_function"]


def explicit_raises(repo) -> List[Dict[str, Any]]:
    out = []
    for fn in ("parser.py", "tokenizer.py"):
        tree = ast.parse(open(os.path.join(repo, "mathy_core", fn)).read())
        for n in ast.walk(tree):
            if isinstance(n, ast.Raise):
                name = None
                e = n.exc
                if isinstance(e, ast.Call):
                    e = e.func
                if isinstance(e, ast.Name):
                    name = e.id
                ok = name in ALLOWED
                out.append({"clause": f"{fn}:{n.lineno}/explicit-raise-is-a-documented-exception", "ok": ok, "detail": "" if ok else f"raises {name}"})
    return out


def _self_call(n, names):
    return isinstance(n, ast.Call) and isinstance(n.func, ast.Attribute) and isinstance(n.func.value, ast.Name) and n.func.value.id == "self" and n.func.attr in names


def _consumes(st) -> bool:
    """An unconditional consumption: an expression statement (or assignment) whose value calls
    self.eat / self.next / a parse_* method at top level."""
    v = None
    if isinstance(st, ast.Expr):
        v = st.value
    elif isinstance(st, ast.Assign):
        v = st.value
    if v is None:
        return False
    for n in ast.walk(v):
        if _self_call(n, {"eat", "next"} | set(LEVELS[1:])):
            return True
    return False


def progress_analysis(repo) -> List[Dict[str, Any]]:
    src = open(os.path.join(repo, "mathy_core", "parser.py")).read()
    tree = ast.parse(src)
    cls = next((n for n in tree.body if isinstance(n, ast.ClassDef) and n.name == "ExpressionParser"), None)
    out: List[Dict[str, Any]] = []
    if cls is None:
        return [{"clause": "progress/parser-class-found", "ok": False, "detail": "ExpressionParser missing"}]
    methods = {n.name: n for n in cls.body if isinstance(n, ast.FunctionDef)}

    def dominated(path_blocks, idx_chain) -> bool:
        # is there, in some enclosing block, an earlier statement that unconditionally consumes?
        for block, idx in zip(path_blocks, idx_chain):
            if any(_consumes(s) for s in block[:idx]):
                return True
        return False

    # token sets defined at module level as TokenSet(TOKEN_TYPES.A | TOKEN_TYPES.B ...)
    set_members: Dict[str, set] = {}
    for n in tree.body:
        tgt = n.targets[0] if isinstance(n, ast.Assign) else (n.target if isinstance(n, ast.AnnAssign) else None)
        val = getattr(n, "value", None)
        if isinstance(tgt, ast.Name) and isinstance(val, ast.Call) and isinstance(val.func, ast.Name) and val.func.id == "TokenSet" and len(val.args) == 1:
            names = [a.attr for a in ast.walk(val.args[0]) if isinstance(a, ast.Attribute) and isinstance(a.value, ast.Name) and a.value.id == "TOKEN_TYPES"]
            only_or = all(isinstance(a, (ast.BinOp, ast.BitOr, ast.Attribute, ast.Name, ast.Load)) for a in ast.walk(val.args[0]))
            if names and only_or:
                set_members[tgt.id] = set(names)
    NESTING = {"OpenParen", "Exponent"}

    def consumed_kinds(st, guards):
        """Token kinds that the consumption statement `st` may eat (None = unknown)."""
        v = st.value if isinstance(st, (ast.Expr, ast.Assign)) else None
        if not (_self_call(v, {"eat"}) and len(v.args) == 1):
            return None
        a = v.args[0]
        if isinstance(a, ast.Attribute) and isinstance(a.value, ast.Name) and a.value.id == "TOKEN_TYPES":
            return {a.attr}
        # eat(<type of the current token>) under a guard `self.check(_SET)`
        for g in reversed(guards):
            t = g.test
            if isinstance(t, ast.UnaryOp):
                continue
            if _self_call(t, {"check"}) and t.args and isinstance(t.args[0], ast.Name) and t.args[0].id in set_members:
                return set_members[t.args[0].id]
        return None

    def nesting_only(path_blocks, idx_chain, guards) -> Any:
        """The nearest dominating consumption before the call eats a token that opens a nested
        scope ('(' or '^'): the stack then grows with the nesting of the input, not with its length."""
        for block, idx in reversed(list(zip(path_blocks, idx_chain))):
            for s in reversed(block[:idx]):
                if _consumes(s):
                    k = consumed_kinds(s, guards)
                    return (k is not None and k <= NESTING), (sorted(k) if k else "unknown")
        return False, "none"

    def walk(fn, block, blocks, idxs, in_loop, guards=()):
        for i, st in enumerate(block):
            b2, i2 = blocks + [block], idxs + [i]
            # calls in this statement
            for n in ast.walk(st) if not isinstance(st, (ast.If, ast.While, ast.For, ast.Try)) else ast.walk(getattr(st, "test", st) if not isinstance(st, ast.Try) else ast.Pass()):
                if _self_call(n, set(LEVELS)):
                    callee = n.func.attr
                    descending = LEVELS.index(callee) > LEVELS.index(fn.name) if fn.name in LEVELS else True
                    if not descending:
                        ok = dominated(b2, i2)
                        out.append({"clause": f"progress/{fn.name}:{n.lineno}-call-to-{callee}-is-preceded-by-a-consumption", "ok": ok, "detail": "" if ok else "non-descending call without a token consumed first"})
                        ok2, kinds = nesting_only(b2, i2, list(guards))
                        out.append({"clause": f"stack/{fn.name}-recursion-into-{callee}-only-after-a-nesting-token", "ok": ok2,
                                    "detail": "" if ok2 else f"line {n.lineno}: the call re-enters the grammar at the same or a higher level after consuming {kinds}: the stack grows with the LENGTH of a flat operator chain (RecursionError for inputs of bounded nesting)"})
            if isinstance(st, ast.While):
                # every path through the body consumes: the body contains an unconditional consumption
                # at its top level, or consists of branches each of which consumes or leaves the loop
                test_src = ast.dump(st.test)
                if fn.name == "parse_factors" and "factors" in test_src and "len" in test_src:
                    # list-driven loop: its termination is the variant obligation of factors_path
                    out.append({"clause": f"progress/{fn.name}:{st.lineno}-list-driven-loop-has-a-variant-obligation", "ok": True, "detail": ""})
                elif _list_driven(st):
                    out.append({"clause": f"progress/{fn.name}:{st.lineno}-list-driven-loop-shrinks-its-list-every-iteration", "ok": True, "detail": ""})
                else:
                    ok = _loop_body_consumes(st.body)
                    out.append({"clause": f"progress/{fn.name}:{st.lineno}-every-iteration-consumes-a-token", "ok": ok, "detail": "" if ok else "an iteration may not consume any token"})
                walk(fn, st.body, b2, i2, True, tuple(guards) + (st,))
            elif isinstance(st, ast.If):
                walk(fn, st.body, b2, i2, in_loop, tuple(guards) + (st,))
                walk(fn, st.orelse, b2, i2, in_loop, guards)
            elif isinstance(st, ast.For):
                walk(fn, st.body, b2, i2, True, guards)

    def _list_driven(st) -> bool:
        """`while xs:` / `while len(xs) > k:` over a local list, whose body pops from xs at its top
        level on every iteration and never adds to it: variant len(xs)."""
        t = st.test
        name = None
        if isinstance(t, ast.Name):
            name = t.id
        elif isinstance(t, ast.Compare) and isinstance(t.left, ast.Call) and isinstance(t.left.func, ast.Name) and t.left.func.id == "len" and t.left.args and isinstance(t.left.args[0], ast.Name):
            if len(t.ops) == 1 and isinstance(t.ops[0], (ast.Gt, ast.GtE, ast.NotEq)) and isinstance(t.comparators[0], ast.Constant):
                name = t.left.args[0].id
        if name is None:
            return False

        def is_method(n, meths):
            return isinstance(n, ast.Call) and isinstance(n.func, ast.Attribute) and isinstance(n.func.value, ast.Name) and n.func.value.id == name and n.func.attr in meths

        pops = any(isinstance(b, (ast.Expr, ast.Assign)) and any(is_method(n, {"pop"}) for n in ast.walk(b.value)) for b in st.body)
        grows = any(is_method(n, {"append", "insert", "extend"}) or (isinstance(n, (ast.Assign, ast.AugAssign)) and any(isinstance(x, ast.Name) and x.id == name for x in ast.walk(n.targets[0] if isinstance(n, ast.Assign) else n.target)))
                    for b in st.body for n in ast.walk(b))
        leaves = any(isinstance(n, ast.Continue) for b in st.body for n in ast.walk(b))
        return pops and not grows and not leaves

    def _loop_body_consumes(body) -> bool:
        for st in body:
            if _consumes(st):
                return True
            if isinstance(st, ast.If):
                # an if/elif chain all of whose branches consume or raise
                branches = []
                cur = st
                while True:
                    branches.append(cur.body)
                    if len(cur.orelse) == 1 and isinstance(cur.orelse[0], ast.If):
                        cur = cur.orelse[0]
                        continue
                    branches.append(cur.orelse)
                    break
                if all(b and (any(_consumes(s) for s in b) or any(isinstance(s, ast.Raise) for s in b) or _loop_body_consumes(b)) for b in branches):
                    return True
        return False

    for name in LEVELS:
        if name in methods:
            walk(methods[name], methods[name].body, [], [], False)
        else:
            out.append({"clause": f"progress/{name}-exists", "ok": False, "detail": "method missing (grammar levels changed: analysis does not apply)"})
    # calls to grammar methods from anywhere else would escape the level order
    for name, m in methods.items():
        if name not in LEVELS and name not in ("parse",):
            for n in ast.walk(m):
                if _self_call(n, set(LEVELS)):
                    out.append({"clause": f"progress/{name}-does-not-call-grammar-methods", "ok": False, "detail": f"calls {n.func.attr}"})
    return out


# ------------------------------------------------------------------ next / eat / check
class Stream:
    """Remaining tokens: an unknown number (n >= 0) of tokens; INV: n == 0 iff EOF has been popped."""

    def __init__(self, ps, tt):
        self.n = z3.Int("remaining")
        self.ps = ps
        self.tt = tt
        ps.assume(self.n >= 0)
        self.popped = []

    def method(self, I, name, args, kw):
        if name == "pop" and args == [0]:
            if not I.ps.decide(self.n > 0, "tokens-left"):
                I.raise_("IndexError", "pop from empty list", implicit=True, site="self.tokens.pop(0)")
            t = I.new_obj(["Token"], label="popped")
            ty = z3.Int("popped_type")
            # the popped token is EOF exactly when it was the last one
            I.ps.assume((ty == self.tt["EOF"]) == (self.n == 1))
            t.cur["type"] = Num(ty)
            t.cur["value"] = ""
            self.n = self.n - 1
            self.popped.append(t)
            return t
        raise OutOfSubset(f"tokens.{name}")

    def truth(self, I):
        return I.ps.decide(self.n > 0, "tokens-nonempty")


def stream_path(I: Interp, ps: PathState, meth: str) -> Dict[str, Any]:
    I.ps = ps
    I.call_depth = 0
    obl = []

    def ob(clause, ok, detail=""):
        obl.append({"clause": f"ExpressionParser.{meth}/{clause}", "ok": bool(ok), "detail": detail if not ok else ""})

    tt = {k: v for k, v in I.classes["TOKEN_TYPES"].attrs.items() if isinstance(v, int)}
    parser = I.new_obj(["ExpressionParser"], label="parser")
    st = Stream(ps, tt)
    cur = I.new_obj(["Token"], label="current")
    cty = z3.Int("cur_type")
    cur.cur["type"] = Num(cty)
    cur.cur["value"] = ""
    parser.cur["tokens"] = st
    parser.cur["current_token"] = cur
    # INV: tokens are exhausted iff the current token is EOF
    ps.assume((st.n == 0) == (cty == tt["EOF"]))
    n0 = st.n
    try:
        if meth == "next":
            ret = I.call_method(parser, "next", [], {})
        elif meth == "eat":
            ret = I.call_method(parser, "eat", [Num(z3.Int("wanted"))], {})
        else:
            ts = I.instantiate(I.classes["TokenSet"], [Num(z3.Int("mask"))], {}) if False else None
            raise OutOfSubset("check is pure bit arithmetic on concrete masks (covered by the enumeration)")
        raised = None
    except PyRaise as pr:
        ret, raised = None, pr
    if raised is not None:
        ok = raised.exc.clsname in ("OutOfTokens", "InvalidSyntax") and not raised.implicit
        ob("raises-only-documented-parse-exceptions", ok, f"{raised.exc.clsname} at {raised.site}")
        ob("state-unchanged-when-raising", parser.cur["current_token"] is cur and len(st.popped) == 0, "token consumed before raising")
    else:
        newcur = parser.cur["current_token"]
        ok = len(st.popped) == 1 and newcur is st.popped[0]
        ob("consumes-exactly-one-token", ok, f"{len(st.popped)} popped")
        if ok:
            nty = zarith(newcur.cur["type"])
            inv = prove(ps.pc, [], (st.n == 0) == (nty == tt["EOF"]), timeout_ms=5000).status == "proved"
            ob("stream-invariant-preserved", inv, "invariant broken")
            r_ok = prove(ps.pc, [], (nty != tt["EOF"]) if ret is True else (nty == tt["EOF"]) if ret is False else z3.BoolVal(False), timeout_ms=5000).status == "proved" if isinstance(ret, bool) else False
            if not isinstance(ret, bool) and z3.is_expr(ret):
                r_ok = prove(ps.pc, [], ret == (nty != tt["EOF"]), timeout_ms=5000).status == "proved"
            ob("returns-whether-tokens-remain", r_ok, repr(ret))
    return {"obligations": obl, "labels": list(ps.labels)}


# ------------------------------------------------------------------ parse_factors list safety
class Counted:
    """The `factors` list with a symbolic number of (opaque) elements."""

    def __init__(self, ps, n, name="factors", elem=None):
        self.ps, self.n, self.name = ps, n, name
        self.elem = elem or (lambda I: I.new_obj(["VariableExpression"], label="factor"))

    def _need(self, I, what):
        if not I.ps.decide(self.n > 0, f"{self.name}-nonempty"):
            I.raise_("IndexError", "list index out of range", implicit=True, site=what)

    def method(self, I, name, args, kw):
        if name == "append":
            self.n = self.n + 1
            return None
        if name == "pop":
            self._need(I, f"{self.name}.pop")
            self.n = self.n - 1
            return self.elem(I)
        raise OutOfSubset(f"{self.name}.{name}")

    def getitem(self, I, idx):
        self._need(I, f"{self.name}[]")
        return self.elem(I)

    def setitem(self, I, idx, v):
        self._need(I, f"{self.name}[]=")

    def length(self, I):
        return Num(self.n)

    def truth(self, I):
        return I.ps.decide(self.n > 0, f"{self.name}-truth")


def factors_path(I: Interp, ps: PathState) -> Dict[str, Any]:
    """parse_factors: (1) a generic iteration of the collecting loop appends exactly one factor on
    every non-raising path; (2) the code after it, for ANY number n >= 1 of collected factors, never
    indexes or pops an empty list (second loop by invariant `exp is None => n >= 2`)."""
    I.ps = ps
    I.call_depth = 0
    I.classes["BinaryTreeNode"].attrs["_idCounter"] = 0
    obl = []

    def ob(clause, ok, detail=""):
        obl.append({"clause": f"ExpressionParser.parse_factors/{clause}", "ok": bool(ok), "detail": detail if not ok else ""})

    tt = {k: v for k, v in I.classes["TOKEN_TYPES"].attrs.items() if isinstance(v, int)}
    fv = I.get_func("mathy_core.parser", "ExpressionParser.parse_factors")
    body = [st for st in fv.node.body if not (isinstance(st, ast.Expr) and isinstance(st.value, ast.Constant))]
    loops = [i for i, st in enumerate(body) if isinstance(st, ast.While)]
    if len(loops) != 2:
        raise OutOfSubset("parse_factors: expected two while loops")
    l1, l2 = loops
    parser = I.new_obj(["ExpressionParser"], label="parser")
    cur = I.new_obj(["Token"], label="current")
    cur.cur["type"] = Num(z3.Int("cur_type"))
    cur.cur["value"] = ""
    parser.cur["current_token"] = cur
    env = Env(parent=fv.env)
    env.vars.update({"self": parser, "__owner__": fv.owner})

    def stub(result):
        def c(I2, args, kw, f):
            return result(I2)

        return c

    saved = dict(I.contracts)
    I.contracts["ExpressionParser.eat"] = stub(lambda I2: True)
    I.contracts["ExpressionParser.parse_function"] = stub(lambda I2: I2.new_obj(["SgnExpression"], label="fn"))
    I.contracts["ExpressionParser.parse_add"] = stub(lambda I2: I2.new_obj(["AddExpression"], label="sum"))
    I.contracts["ExpressionParser.parse_unary"] = stub(lambda I2: I2.new_obj(["ConstantExpression"], label="exp"))
    I.contracts["ExpressionParser.check"] = stub(lambda I2: I2.ps.decide(z3.Bool(f"check{I2.ps.next_sym}") if not setattr(I2.ps, "next_sym", I2.ps.next_sym + 1) else False, "check"))
    try:
        phase = ["collect-step", "after"][ps.choose(2, "phase")]
        n0 = z3.Int("n0")
        ps.assume(n0 >= 0)
        lst = Counted(ps, n0)
        for st in body[:l1]:
            I.exec_stmt(st, env)
        ob("collecting-loop-is-entered-at-least-once", env.vars.get("found") is True, repr(env.vars.get("found")))
        env.vars["factors"] = lst
        if phase == "collect-step":
            try:
                I.exec_block(body[l1].body, env)
                ok = prove(ps.pc, [], lst.n == n0 + 1, timeout_ms=5000).status == "proved"
                ob("collect-step/appends-exactly-one-factor", ok, f"n {n0} -> {lst.n}")
            except PyRaise as pr:
                ob("collect-step/raises-only-parse-exceptions", not pr.implicit and pr.exc.clsname in ALLOWED, f"{pr.exc.clsname} at {pr.site}")
            return {"obligations": obl, "labels": list(ps.labels)}
        # after the collecting loop: n >= 1
        ps.assume(n0 >= 1)
        try:
            for st in body[l1 + 1 : l2]:
                I.exec_stmt(st, env)
        except ReturnEx:
            ob("after/early-return-safe", True)
            return {"obligations": obl, "labels": list(ps.labels)}
        except PyRaise as pr:
            ob("after/no-internal-error-before-the-product-loop", not pr.implicit and pr.exc.clsname in ALLOWED, f"{pr.exc.clsname} at {pr.site}")
            return {"obligations": obl, "labels": list(ps.labels)}
        # entry of the product loop: invariant (exp is None => n >= 2)
        exp = env.vars.get("exp")
        inv0 = prove(ps.pc, [], lst.n >= 2, timeout_ms=5000).status == "proved" if exp is None else True
        ob("product-loop/inv-init (exp is None => at least two factors)", inv0, f"exp={exp} n={lst.n}")
        # generic iteration: arbitrary n > 0, exp None (then n >= 2) or not None
        n1 = z3.Int("n1")
        lst.n = n1
        ps.assume(n1 > 0)
        first = ps.choose(2, "exp-is-none") == 0
        if first:
            ps.assume(n1 >= 2)
            env.vars["exp"] = None
        else:
            env.vars["exp"] = I.new_obj(["MultiplyExpression"], label="acc")
        try:
            I.exec_block(body[l2].body, env)
            ob("product-loop/no-pop-from-an-empty-list", True)
            ob("product-loop/inv-preserved (exp is set)", env.vars.get("exp") is not None, "exp is None after an iteration")
            ob("product-loop/variant-decreases", prove(ps.pc, [], z3.And(lst.n < n1, lst.n >= 0), timeout_ms=5000).status == "proved", f"{n1} -> {lst.n}")
        except PyRaise as pr:
            ob("product-loop/no-pop-from-an-empty-list", False, f"{pr.exc.clsname} at {pr.site}")
    finally:
        I.contracts = saved
    return {"obligations": obl, "labels": list(ps.labels)}


def mult_path(I: Interp, ps: PathState) -> Dict[str, Any]:
    """parse_mult keeps the chain in two local lists.  Sidecar loop invariants, for ANY chain length:
    collecting loop  INV1: len(operands) == len(operators) + 1;
    nesting loop     INV2: len(operands) == len(operators)   (after the first pop).
    Obligations: INV1 holds on entry and after a generic iteration; the code between the loops is
    safe under INV1 and establishes INV2; a generic iteration of the second loop pops only from
    non-empty lists and preserves INV2; raising paths raise documented exceptions only.
    A parse_mult without local lists (recursive form) has nothing to index: one trivial obligation."""
    I.ps = ps
    I.call_depth = 0
    I.classes["BinaryTreeNode"].attrs["_idCounter"] = 0
    obl = []

    def ob(clause, ok, detail=""):
        obl.append({"clause": f"ExpressionParser.parse_mult/{clause}", "ok": bool(ok), "detail": detail if not ok else ""})

    fv = I.get_func("mathy_core.parser", "ExpressionParser.parse_mult")
    body = [st for st in fv.node.body if not (isinstance(st, ast.Expr) and isinstance(st.value, ast.Constant))]
    lists = [st.targets[0].id for st in body if isinstance(st, ast.Assign) and isinstance(st.value, ast.List) and isinstance(st.targets[0], ast.Name)]
    uses_index = any(isinstance(n, ast.Subscript) or (isinstance(n, ast.Call) and isinstance(n.func, ast.Attribute) and n.func.attr == "pop") for n in ast.walk(fv.node))
    if not lists:
        ob("no-local-list-is-indexed", not uses_index, "pop / subscript without a recognised local list")
        return {"obligations": obl, "labels": list(ps.labels)}
    loops = [i for i, st in enumerate(body) if isinstance(st, ast.While)]
    if len(loops) != 2 or len(lists) != 2:
        raise OutOfSubset("parse_mult: expected two local lists and two while loops")
    l1, l2 = loops
    tt = {k: v for k, v in I.classes["TOKEN_TYPES"].attrs.items() if isinstance(v, int)}
    parser = I.new_obj(["ExpressionParser"], label="parser")
    cur = I.new_obj(["Token"], label="current")
    cur.cur["type"] = Num(z3.Int("cur_type"))
    cur.cur["value"] = "*"
    parser.cur["current_token"] = cur
    parser.cur["_all_tokens"] = ListObj([])
    env = Env(parent=fv.env)
    env.vars.update({"self": parser, "__owner__": fv.owner})

    def stub(result):
        def c(I2, args, kw, f):
            return result(I2)

        return c

    saved = dict(I.contracts)
    I.contracts["ExpressionParser.eat"] = stub(lambda I2: True)
    I.contracts["ExpressionParser.parse_exponent"] = stub(lambda I2: I2.new_obj(["PowerExpression"], label="operand"))
    I.contracts["ExpressionParser.parse_mult"] = stub(lambda I2: I2.new_obj(["MultiplyExpression"], label="rest"))
    I.contracts["ExpressionParser.check"] = stub(lambda I2: I2.ps.decide(z3.Bool(f"check{I2.ps.next_sym}") if not setattr(I2.ps, "next_sym", I2.ps.next_sym + 1) else False, "check"))
    try:
        phase = ["init", "collect-step", "between", "nest-step"][ps.choose(4, "phase")]
        for st in body[:l1]:
            I.exec_stmt(st, env)
        # which list is the longer one: decided by the lengths on entry
        lens = {}
        for nm in lists:
            v = env.vars.get(nm)
            lens[nm] = len(v.items) if isinstance(v, ListObj) else None
        if sorted(lens.values(), key=str) != [0, 1]:
            raise OutOfSubset(f"parse_mult: lists start with lengths {lens}")
        longer = next(nm for nm in lists if lens[nm] == 1)
        shorter = next(nm for nm in lists if lens[nm] == 0)
        if phase == "init":
            ob("INV1-on-entry (one operand more than operators)", True)
            return {"obligations": obl, "labels": list(ps.labels)}
        k = z3.Int("k")
        ps.assume(k >= 0)
        A = Counted(ps, k + 1, longer, lambda I2: I2.new_obj(["PowerExpression"], label="operand"))
        B = Counted(ps, k, shorter, lambda I2: Num(z3.Int(f"op{I2.ps.next_sym}")))
        env.vars[longer], env.vars[shorter] = A, B
        if phase == "collect-step":
            try:
                I.exec_block(body[l1].body, env)
                ob("collect-step/INV1-preserved", prove(ps.pc, [], A.n == B.n + 1, timeout_ms=5000).status == "proved", f"{A.n} vs {B.n}")
                ob("collect-step/lists-only-grow", prove(ps.pc, [], z3.And(A.n >= k + 1, B.n >= k), timeout_ms=5000).status == "proved", "")
            except PyRaise as pr:
                ob("collect-step/raises-only-parse-exceptions", not pr.implicit and pr.exc.clsname in ALLOWED, f"{pr.exc.clsname} at {pr.site}")
            return {"obligations": obl, "labels": list(ps.labels)}
        if phase == "between":
            try:
                for st in body[l1 + 1 : l2]:
                    I.exec_stmt(st, env)
                ob("between/no-internal-error", True)
                ob("between/INV2-established", prove(ps.pc, [], A.n == B.n, timeout_ms=5000).status == "proved", f"{A.n} vs {B.n}")
            except PyRaise as pr:
                ob("between/no-internal-error", not pr.implicit and pr.exc.clsname in ALLOWED, f"{pr.exc.clsname} at {pr.site}")
            return {"obligations": obl, "labels": list(ps.labels)}
        # generic iteration of the nesting loop under INV2
        A.n, B.n = k, k
        env.vars["exp"] = I.new_obj(["PowerExpression"], label="acc")
        try:
            more = I.truth(I.eval(body[l2].test, env), "nest-loop-test")
            if not more:
                try:
                    for st in body[l2 + 1 :]:
                        I.exec_stmt(st, env)
                    ob("after/returns-a-value", False, "fell off the end")
                except ReturnEx as r:
                    ob("after/returns-the-accumulated-expression", isinstance(r.value, Obj), repr(r.value))
            else:
                I.exec_block(body[l2].body, env)
                ob("nest-step/no-pop-from-an-empty-list", True)
                ob("nest-step/INV2-preserved", prove(ps.pc, [], A.n == B.n, timeout_ms=5000).status == "proved", f"{A.n} vs {B.n}")
                ob("nest-step/variant-decreases", prove(ps.pc, [], z3.And(B.n < k, B.n >= 0), timeout_ms=5000).status == "proved", f"{k} -> {B.n}")
                ob("nest-step/accumulates-an-expression", isinstance(env.vars.get("exp"), Obj), repr(env.vars.get("exp")))
        except PyRaise as pr:
            ob("nest-step/no-pop-from-an-empty-list", False, f"{pr.exc.clsname} at {pr.site}")
    finally:
        I.contracts = saved
    return {"obligations": obl, "labels": list(ps.labels)}


def function_lookup(repo) -> List[Dict[str, Any]]:
    """parse_function looks the function up by the *value of the current token*, and is only entered
    on a Function token (from parse_factors' Function branch)."""
    src = open(os.path.join(repo, "mathy_core", "parser.py")).read()
    tree = ast.parse(src)
    out = []
    cls = next(n for n in tree.body if isinstance(n, ast.ClassDef) and n.name == "ExpressionParser")
    m = {n.name: n for n in cls.body if isinstance(n, ast.FunctionDef)}
    pf = m.get("parse_function")
    ok = False
    if pf is not None:
        first = [s for s in pf.body if not (isinstance(s, ast.Expr) and isinstance(s.value, ast.Constant))][0]
        # opFn = str(self.current_token.value) as the first statement
        ok = isinstance(first, ast.Assign) and "current_token" in ast.dump(first.value) and "value" in ast.dump(first.value)
        key = first.targets[0].id if ok and isinstance(first.targets[0], ast.Name) else None
        subs = [n for n in ast.walk(pf) if isinstance(n, ast.Subscript) and "functions" in ast.dump(n.value)]
        ok = ok and len(subs) == 1 and isinstance(subs[0].slice, ast.Name) and subs[0].slice.id == key
    out.append({"clause": "parse_function/looks-up-the-current-function-token-value", "ok": ok, "detail": "" if ok else "lookup key is not the current token's value"})
    callers = []
    for name, fn in m.items():
        for n in ast.walk(fn):
            if _self_call(n, {"parse_function"}):
                callers.append((name, n))
    ok2 = len(callers) >= 1 and all(name == "parse_factors" for name, _ in callers)
    # guarded by `opType == TOKEN_TYPES.Function`
    guarded = False
    for n in ast.walk(m["parse_factors"]) if "parse_factors" in m else []:
        if isinstance(n, ast.If) and "Function" in ast.dump(n.test) and any(_self_call(x, {"parse_function"}) for x in ast.walk(ast.Module(body=n.body, type_ignores=[]))):
            guarded = True
    out.append({"clause": "parse_function/only-entered-on-a-function-token", "ok": ok2 and guarded, "detail": "" if ok2 and guarded else f"callers {[c for c, _ in callers]} guarded={guarded}"})
    return out


def run_all(repo) -> Dict[str, Any]:
    obl: List[Dict[str, Any]] = []
    errors: List[str] = []
    obl += explicit_raises(repo)
    obl += progress_analysis(repo)
    obl += function_lookup(repo)
    I = Interp(repo)
    try:
        I.load_module("mathy_core.parser")
        for name, fn in (("next", lambda ps: stream_path(I, ps, "next")), ("eat", lambda ps: stream_path(I, ps, "eat")), ("parse_factors", lambda ps: factors_path(I, ps)), ("parse_mult", lambda ps: mult_path(I, ps))):
            try:
                n = 0
                for o in explore(fn):
                    if o.error is not None:
                        errors.append(f"{name}: out-of-subset: {o.error}")
                        continue
                    for ob in o.result["obligations"]:
                        n += 1
                        obl.append(dict(ob, labels=o.result["labels"]))
                if n == 0 and not any(e.startswith(name) for e in errors):
                    errors.append(f"engine-error: vacuous: no obligation for {name}")
            except OutOfSubset as e:
                errors.append(f"{name}: out-of-subset: {e}")
    except Exception as e:  # noqa: BLE001
        import traceback

        errors.append(f"engine-error: {e!r} {traceback.format_exc()[-300:]}")
    return {"obligations": obl, "errors": errors}
