"""Entry point: /verif/bin/check <Cxx> [--tier quick|thorough] [--seed N]"""
from __future__ import annotations

import argparse
import os
import sys
import traceback

sys.path.insert(0, os.path.dirname(os.path.dirname(os.path.abspath(__file__))))


def main() -> int:
    ap = argparse.ArgumentParser()
    ap.add_argument("prop")
    ap.add_argument("--tier", default=os.environ.get("VERIF_TIER", "quick"))
    ap.add_argument("--seed", type=int, default=int(os.environ.get("VERIF_SEED", "0")))
    a = ap.parse_args()
    tier = a.tier if a.tier in ("quick", "thorough") else "quick"
    try:
        if a.prop in ("C01", "C02", "C06", "C07"):
            from checks import rules_family

            return rules_family.run(a.prop, tier, a.seed)
        if a.prop in ("C03", "C10"):
            from checks import parse_family

            return parse_family.run(a.prop, tier, a.seed)
        if a.prop == "C04":
            from checks import c04

            return c04.run(tier, a.seed)
        if a.prop == "C05":
            from checks import c05

            return c05.run(tier, a.seed)
        if a.prop == "C08":
            from checks import c08

            return c08.run(tier, a.seed)
        if a.prop == "C09":
            from checks import c09

            return c09.run(tier, a.seed)
        if a.prop == "C11":
            from checks import c11

            return c11.run(tier, a.seed)
        if a.prop == "C12":
            from checks import c12

            return c12.run(tier, a.seed)
        if a.prop == "C13":
            from checks import c13

            return c13.run(tier, a.seed)
        if a.prop == "C14":
            from checks import c14

            return c14.run(tier, a.seed)
        if a.prop == "C15":
            from checks import c15

            return c15.run(tier, a.seed)
        if a.prop == "C16":
            from checks import c16

            return c16.run(tier, a.seed)
        if a.prop == "C17":
            from checks import c17

            return c17.run(tier, a.seed)
        if a.prop == "C18":
            from checks import c18

            return c18.run(tier, a.seed)
        print(f"no check registered for {a.prop}")
        return 3
    except Exception:  # noqa: BLE001
        traceback.print_exc()
        print(f"ENGINE-ERROR checker crashed for {a.prop}")
        return 3


if __name__ == "__main__":
    sys.exit(main())
