"""Shared plumbing of the checks: exit codes, evidence files, known findings, replay files."""
from __future__ import annotations

import hashlib
import json
import os
import subprocess
import sys
import time
from typing import Any, Dict, List, Optional

VERIF = os.path.dirname(os.path.dirname(os.path.abspath(__file__)))
REPO = os.environ.get("PYVC_REPO", "/repo")
VENV_PY = "/venv/bin/python"
EXIT_HELD, EXIT_VIOLATION, EXIT_UNDECIDED, EXIT_ENGINE = 0, 1, 2, 3

sys.path.insert(0, VERIF)


def repo_digest(repo=REPO) -> str:
    h = hashlib.sha256()
    base = os.path.join(repo, "mathy_core")
    for root, dirs, files in sorted(os.walk(base)):
        dirs.sort()
        for f in sorted(files):
            if f.endswith((".py", ".json", ".md")):
                p = os.path.join(root, f)
                h.update(os.path.relpath(p, base).encode())
                with open(p, "rb") as fh:
                    h.update(fh.read())
    return h.hexdigest()[:16]


def verif_digest() -> str:
    h = hashlib.sha256()
    for sub in ("pyvc", "checks", "tierb", "contracts"):
        base = os.path.join(VERIF, sub)
        for root, dirs, files in sorted(os.walk(base)):
            dirs.sort()
            for f in sorted(files):
                if f.endswith(".py"):
                    with open(os.path.join(root, f), "rb") as fh:
                        h.update(fh.read())
    return h.hexdigest()[:16]


# ------------------------------------------------------------------ known findings
def load_known() -> List[Dict[str, Any]]:
    p = os.path.join(VERIF, "known_findings.json")
    if not os.path.exists(p):
        return []
    with open(p) as f:
        return json.load(f)["findings"]


def shape_matches(pattern: Dict[str, List[str]], shape: Dict[str, List[str]], case: Optional[Dict[str, str]] = None) -> bool:
    """Every path constrained by the pattern must exist in the failing shape with kinds inside
    the allowed set (a failing kind case narrows the shape first)."""
    for path, allowed in pattern.items():
        if case and path in case:
            kinds = [case[path]]
        else:
            kinds = shape.get(path)
        if kinds is None:
            if "absent" in allowed:
                continue
            return False
        if not set(kinds) <= set(allowed):
            return False
    return True


def match_known(known, prop, failure) -> Optional[Dict[str, Any]]:
    """failure: {cfg, clause, shape, cases: [ {path: kind} ] or [], detail}.  A failure is known only
    if every failing case is covered by one open entry for this property."""
    cands = [k for k in known if k.get("status") == "open" and prop in k["properties"]]
    cases = failure.get("cases") or [None]
    hit = None
    for case in cases:
        found = None
        for k in cands:
            m = k["match"]
            if m.get("cfg") and failure.get("cfg") not in m["cfg"]:
                continue
            if m.get("clause") and failure.get("clause") not in m["clause"]:
                continue
            if m.get("detail_contains") and m["detail_contains"] not in (failure.get("detail") or ""):
                continue
            if m.get("detail_any") and not any(x in (failure.get("detail") or "") for x in m["detail_any"]):
                continue
            if not shape_matches(m.get("shape", {}), failure.get("shape", {}), case):
                continue
            found = k
            break
        if found is None:
            return None
        hit = found
    return hit


def parse_cases(detail: str) -> List[Dict[str, str]]:
    """'node.right=Add:refuted | node.right=Power:refuted' -> [{'node.right': 'Add'}, ...]"""
    out = []
    if not detail or "=" not in detail:
        return out
    for part in detail.split(" | "):
        part = part.strip()
        if ":" not in part:
            continue
        body, status = part.rsplit(":", 1)
        case = {}
        for kv in body.split(","):
            if "=" in kv:
                k, v = kv.split("=", 1)
                case[k.strip()] = v.strip()
        if case:
            case["__status"] = status
            out.append(case)
    return out


# ------------------------------------------------------------------ evidence / result
class Result:
    def __init__(self, prop: str, tier: str, seed: int):
        self.prop, self.tier, self.seed = prop, tier, seed
        self.t0 = time.time()
        self.violations: List[Dict[str, Any]] = []  # new violations (not known)
        self.known_hits: Dict[str, Dict[str, Any]] = {}
        self.undecided: List[str] = []
        self.engine_errors: List[str] = []
        self.coverage: Dict[str, Any] = {}
        self.assumptions: List[str] = []
        self.level = "other"
        self.lines: List[str] = []

    def say(self, s):
        print(s, flush=True)

    def violation(self, what: str, payload: Dict[str, Any], found_input: bool):
        os.makedirs(os.path.join(VERIF, "replays", self.prop), exist_ok=True)
        name = hashlib.sha1(what.encode()).hexdigest()[:12] + ".json"
        path = os.path.join(VERIF, "replays", self.prop, name)
        with open(path, "w") as f:
            json.dump(dict(payload, property=self.prop, what=what), f, indent=1, default=str)
        self.violations.append({"what": what, "replay": path, "found_input": found_input})
        suffix = "" if found_input else " no-failing-input-found"
        if len(self.violations) <= 8:
            self.say(f"VIOLATION property={self.prop} replay={path} {what[:600]}{suffix}")
        elif len(self.violations) == 9:
            self.say(f"(further violations of {self.prop} are written to {os.path.dirname(path)} without a line each)")

    def known(self, entry, what=""):
        if entry["id"] not in self.known_hits:
            self.known_hits[entry["id"]] = entry
            self.say(f"KNOWN-FINDING: property={self.prop} {entry['id']}: {entry['what']}")

    def replay_open_findings(self):
        """Every open finding of this property is replayed on the real code and reported while it
        still reproduces (nothing is suppressed by a finding that no longer fails)."""
        todo = [k for k in load_known() if k.get("status") == "open" and self.prop in k["properties"] and k.get("witness") and k["id"] not in self.known_hits]
        if not todo:
            return
        try:
            p = run_venv("kf_replay.py", [], stdin=json.dumps(todo), timeout=600)
            res = json.loads(p.stdout) if p.returncode == 0 else {}
        except Exception:  # noqa: BLE001
            res = {}
        for k in todo:
            r = res.get(k["id"])
            if r is True:
                self.known(k)
            elif isinstance(r, str):
                self.say(f"NOTE known finding {k['id']} could not be replayed: {r}")

    def finish(self) -> int:
        try:
            self.replay_open_findings()
        except Exception:  # noqa: BLE001
            pass
        wall = time.time() - self.t0
        # the evidence level is the level claimed in MANIFEST.json for this property
        try:
            with open(os.path.join(VERIF, "MANIFEST.json")) as f:
                for c in json.load(f)["checks"]:
                    if c["property_id"] == self.prop:
                        self.level = c["level_claimed"]["category"]
        except Exception:  # noqa: BLE001
            pass
        if self.level in ("exploration", "fault_enumeration"):
            self.coverage.setdefault("evaluations", int(self.coverage.get("obligations", 1) or 1))
            self.coverage.setdefault("distinct_nontrivial", max(2, int(self.coverage.get("discharged", 2) or 2)))
            self.coverage.setdefault("rule", self.coverage.get("explanation", "see explanation"))
            self.coverage.setdefault("samples", [{"note": "see coverage"}])
        self.coverage.setdefault("explanation", "see the other coverage keys")
        ev = {
            "property_id": self.prop,
            "tier": self.tier,
            "seed": self.seed,
            "level": self.level,
            "coverage": self.coverage,
            "assumptions": self.assumptions,
            "wall_s": round(wall, 2),
            "violations": len(self.violations),
            "known_findings_reported": sorted(self.known_hits),
            "undecided": self.undecided[:50],
            "repo_digest": repo_digest(),
        }
        evdir = os.environ.get("VERIF_EVIDENCE_DIR") or os.path.join(VERIF, "evidence")
        os.makedirs(evdir, exist_ok=True)
        with open(os.path.join(evdir, f"{self.prop}.json"), "w") as f:
            json.dump(ev, f, indent=1, default=str)
        for e in self.engine_errors[:10]:
            self.say(f"ENGINE-ERROR {e}")
        if self.violations:
            # a refuted obligation / a failing input stands whatever else went wrong in the run
            return EXIT_VIOLATION
        if self.engine_errors:
            return EXIT_ENGINE
        if self.undecided:
            for u in self.undecided[:10]:
                self.say(f"UNDECIDED {u}")
            return EXIT_UNDECIDED
        self.say(f"OK property={self.prop} tier={self.tier} wall={wall:.1f}s")
        return EXIT_HELD


def tierb_json(p: subprocess.CompletedProcess, R=None, what: str = "tier-B") -> Dict[str, Any]:
    """Output of a bounded stand-in; a harness that died (traceback, no JSON) is an engine error, never a verdict."""
    try:
        return json.loads(p.stdout)
    except (ValueError, TypeError):
        if R is not None:
            R.engine_errors.append(f"{what} harness crashed (exit {p.returncode}): " + (p.stderr or "")[-300:])
        return {}


def run_venv(script: str, args: List[str], stdin: Optional[str] = None, timeout=3600) -> subprocess.CompletedProcess:
    env = dict(os.environ, PYVC_REPO=REPO, PYTHONPATH=os.path.join(VERIF, "tierb"))
    return subprocess.run(
        [VENV_PY, os.path.join(VERIF, "tierb", script)] + args,
        input=stdin,
        capture_output=True,
        text=True,
        timeout=timeout,
        env=env,
        cwd=os.path.join(VERIF, "tierb"),
    )
