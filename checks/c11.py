"""C11: tokenizing is lossless, total and faithful to character classes.

Deductive structure (strings of ANY length: the text is a symbolic sequence with an uninterpreted
character function):
  * eat_token: loop invariant `res == chunk[0:j]` and every eaten character satisfies the predicate;
    init / preservation / early exit / normal exit, giving the contract "longest prefix of `chunk`
    whose characters satisfy typeFn".
  * is_alpha / is_number: exactly the letter / digit-or-dot classes.
  * one iteration of the tokenize loop from an ARBITRARY position (chunk == buffer[index:]), with
    eat_token replaced by its contract: the appended tokens, the consumed length and the raised
    exception are compared with the step specification written from the property (spec table below);
    each iteration consumes >= 1 character (variant), keeps chunk == buffer[index:], and the code after
    the loop appends exactly one end marker.
  By induction over the iterations the token list is the specified segmentation; concatenating the
  values gives the normalised input (every consumed character is in exactly one token: obligation
  `value-is-the-consumed-text-normalised`).
"""
from __future__ import annotations

import ast
import json
import os
from typing import Any, Dict, List

import z3

from pyvc.explore import explore, prove
from pyvc.interp import Builtin, Env, Interp, PathState
from pyvc.strings import Repeat, SChar, Slice, SymText
from pyvc.values import DictObj, ListObj, Num, Obj, OutOfSubset, PyRaise, ReturnEx, zarith

from .common import REPO, Result, run_venv, tierb_json

# ---- specification table (from the property statement / tokenizer documentation)
OPERATORS = {"+": ("Plus", "+"), "-": ("Minus", "-"), "–": ("Minus", "-"), "*": ("Multiply", "*"), "/": ("Divide", "/"), "^": ("Exponent", "^"),
             "!": ("Factorial", "!"), "(": ("OpenParen", "("), "[": ("OpenParen", "("), ")": ("CloseParen", ")"), "]": ("CloseParen", ")"), "=": ("Equal", "=")}
WHITESPACE = [" ", "\t", "\r", "\n"]


def z_is_digit(c):
    return z3.Or(c == ord("."), z3.And(c >= ord("0"), c <= ord("9")))


def z_is_alpha(c):
    return z3.Or(z3.And(c >= ord("a"), c <= ord("z")), z3.And(c >= ord("A"), c <= ord("Z")))


def _valid(ps, goal) -> bool:
    return prove(ps.pc, [], goal, timeout_ms=10000).status == "proved"


# ------------------------------------------------------------------ character classes
def charclass_path(I: Interp, ps: PathState, fname: str) -> Dict[str, Any]:
    I.ps = ps
    I.call_depth = 0
    tok = I.new_obj(["Tokenizer"], label="tokenizer")
    c = SChar(z3.Int("c"))
    ret = I.call_method(tok, fname, [c], {})
    if isinstance(ret, bool):
        ret = z3.BoolVal(ret)
    spec = z_is_alpha(c.code) if fname == "is_alpha" else z_is_digit(c.code)
    ok = _valid(ps, ret == spec)
    return {"obligations": [{"clause": f"Tokenizer.{fname}/is-exactly-the-character-class", "ok": ok, "detail": "" if ok else f"returns {ret}"}], "labels": list(ps.labels)}


# ------------------------------------------------------------------ eat_token by loop invariant
def eat_token_path(I: Interp, ps: PathState) -> Dict[str, Any]:
    I.ps = ps
    I.call_depth = 0
    obl: List[Dict[str, Any]] = []

    def ob(clause, ok, detail=""):
        obl.append({"clause": f"Tokenizer.eat_token/{clause}", "ok": bool(ok), "detail": detail if not ok else ""})

    fv = I.get_func("mathy_core.tokenizer", "Tokenizer.eat_token")
    body = [st for st in fv.node.body if not (isinstance(st, ast.Expr) and isinstance(st.value, ast.Constant))]
    loops = [st for st in body if isinstance(st, ast.For)]
    if len(loops) != 1:
        raise OutOfSubset("eat_token: expected exactly one for loop")
    loop = loops[0]
    idx = body.index(loop)
    pre, post = body[:idx], body[idx + 1 :]
    text = SymText("buf")
    lo, hi = z3.Int("lo"), z3.Int("hi")
    ps.assume(z3.And(0 <= lo, lo <= hi, hi <= text.n))
    chunk = Slice(text, lo, hi)
    P = z3.Function("P", z3.IntSort(), z3.BoolSort())
    typefn = Builtin("typeFn", lambda I2, args, kw: P(args[0].code) if isinstance(args[0], SChar) else (_ for _ in ()).throw(OutOfSubset("typeFn on a non-character")))
    tok = I.new_obj(["Tokenizer"], label="tokenizer")
    ctx = I.new_obj(["TokenContext"], label="context")
    ctx.cur["chunk"] = chunk
    env = Env(parent=fv.env)
    env.vars.update({"self": tok, "context": ctx, "typeFn": typefn})
    phase = ["init", "step", "exit"][ps.choose(3, "phase")]
    # the loop must iterate over the characters of the chunk, in order
    it_ok = isinstance(loop.iter, ast.Call) and isinstance(loop.iter.func, ast.Name) and loop.iter.func.id == "list"
    for st in pre:
        I.exec_stmt(st, env)
    it = I.eval(loop.iter, env)
    ob("iterates-over-the-chunk", isinstance(it, Slice) and it.is_(lo, hi) and it_ok, repr(it))
    if phase == "init":
        ob("inv-init/res-is-empty-prefix", env.vars.get("res") == "", repr(env.vars.get("res")))
        return {"obligations": obl, "labels": list(ps.labels)}
    j = z3.Int("j")
    if phase == "step":
        ps.assume(z3.And(lo <= j, j < hi))
        env.vars["res"] = "" if False else Slice(text, lo, j)
        I.assign_target(loop.target, SChar(text.ch(j), text, j), env)
        try:
            I.exec_block(loop.body, env)
            res = env.vars.get("res")
            ob("inv-preserve/res-extended-by-the-character", isinstance(res, Slice) and res.is_(lo, j + 1), repr(res))
            ob("inv-preserve/character-satisfies-typeFn", _valid(ps, P(text.ch(j))), "continued although typeFn was false")
        except ReturnEx as r:
            ob("early-exit/returns-the-prefix-before-the-first-mismatch", isinstance(r.value, Slice) and r.value.is_(lo, j), repr(r.value))
            ob("early-exit/only-when-typeFn-fails", _valid(ps, z3.Not(P(text.ch(j)))), "returned although typeFn held")
        return {"obligations": obl, "labels": list(ps.labels)}
    # normal exit: every character satisfied typeFn, res is the whole chunk
    env.vars["res"] = Slice(text, lo, hi)
    try:
        for st in post:
            I.exec_stmt(st, env)
        ob("exit/returns", False, "fell off the end")
    except ReturnEx as r:
        ob("exit/returns-the-whole-chunk", isinstance(r.value, Slice) and r.value.is_(lo, hi), repr(r.value))
    return {"obligations": obl, "labels": list(ps.labels)}


# ------------------------------------------------------------------ one iteration of tokenize
def tokenize_step_path(I: Interp, ps: PathState) -> Dict[str, Any]:
    I.ps = ps
    I.call_depth = 0
    obl: List[Dict[str, Any]] = []

    def ob(clause, ok, detail=""):
        obl.append({"clause": f"Tokenizer.tokenize/{clause}", "ok": bool(ok), "detail": detail if not ok else ""})

    tt = {k: v for k, v in I.classes["TOKEN_TYPES"].attrs.items() if isinstance(v, int)}
    fv = I.get_func("mathy_core.tokenizer", "Tokenizer.tokenize")
    body = [st for st in fv.node.body if not (isinstance(st, ast.Expr) and isinstance(st.value, ast.Constant))]
    loops = [st for st in body if isinstance(st, ast.While)]
    if len(loops) != 1:
        raise OutOfSubset("tokenize: expected exactly one while loop")
    loop = loops[0]
    idx = body.index(loop)
    pre, post = body[:idx], body[idx + 1 :]
    text = SymText("buf")
    ps.assume(text.n >= 0)
    keep = ps.choose(2, "padding") == 1
    tok = I.instantiate(I.classes["Tokenizer"], [], {"exclude_padding": not keep})
    fnames = [k for k in tok.cur["functions"].items]
    eat_calls = []

    def c_eat(I2, args, kw, f):
        # contract proved above: the longest prefix of context.chunk whose characters satisfy typeFn
        me, context, typefn = args
        chunk = context.cur["chunk"]
        which = typefn.func.qual if hasattr(typefn, "func") else repr(typefn)
        pred = {"Tokenizer.is_number": z_is_digit, "Tokenizer.is_alpha": z_is_alpha}.get(which)
        if pred is None or not isinstance(chunk, Slice):
            raise OutOfSubset(f"eat_token with {which}")
        k = ps.fresh("runend", "Int")
        ps.assume(z3.And(chunk.lo <= k, k <= chunk.hi))
        ps.assume(z3.Or(k == chunk.hi, z3.Not(pred(text.ch(k)))))
        # the run is non-empty when its first character satisfies the predicate
        ps.assume(z3.Implies(z3.And(chunk.lo < chunk.hi, pred(text.ch(chunk.lo))), k > chunk.lo))
        ps.assume(z3.Implies(k > chunk.lo, pred(text.ch(chunk.lo))))
        eat_calls.append((which, chunk, k))
        return Slice(text, chunk.lo, k)

    saved = dict(I.contracts)
    I.contracts["Tokenizer.eat_token"] = c_eat
    try:
        phase = ["init", "step"][ps.choose(2, "phase")]
        env = Env(parent=fv.env)
        env.vars.update({"self": tok, "buffer": text.whole()})
        if phase == "init":
            try:
                for st in pre:
                    I.exec_stmt(st, env)
            except PyRaise as pr:
                ob("inv-init/no-raise", False, f"{pr.exc.clsname} at {pr.site}")
                return {"obligations": obl, "labels": list(ps.labels)}
            ctx = env.vars.get("context")
            ok = isinstance(ctx, Obj) and isinstance(ctx.cur.get("chunk"), Slice) and ctx.cur["chunk"].is_(z3.IntVal(0), text.n) and isinstance(ctx.cur.get("buffer"), Slice) \
                and ctx.cur["buffer"].is_(z3.IntVal(0), text.n) and ctx.cur.get("index") == 0 and isinstance(ctx.cur.get("tokens"), ListObj) and not ctx.cur["tokens"].items
            ob("inv-init/index-0-chunk-is-buffer-no-tokens", ok, repr(ctx.cur if isinstance(ctx, Obj) else ctx))
            return {"obligations": obl, "labels": list(ps.labels)}
        # arbitrary iteration: index = i0, chunk = buffer[i0:], tokens so far abstract
        i0 = z3.Int("i0")
        ps.assume(z3.And(0 <= i0, i0 <= text.n))
        ctx = I.instantiate(I.classes["TokenContext"], [], {"buffer": text.whole(), "chunk": Slice(text, i0, text.n)})
        ctx.cur["index"] = Num(i0)
        marker = I.new_obj(["object"], label="tokens-so-far")
        ctx.cur["tokens"].items[:] = [marker]
        env.vars["context"] = ctx
        raised = None
        try:
            go = I.cond(loop.test, env, "loop-test")
            if go:
                I.exec_block(loop.body, env)
        except PyRaise as pr:
            raised, go = pr, True
        new = ctx.cur["tokens"].items[1:]
        ob("tokens-so-far-untouched", ctx.cur["tokens"].items[:1] == [marker], "earlier tokens were modified")
        c0 = text.ch(i0)
        at_end = _valid(ps, i0 >= text.n)
        if not go:
            ob("loop-ends-only-at-the-end-of-the-text", at_end and not new, f"stopped with text left, new tokens {new}")
            # the code after the loop: exactly one end marker
            env2 = env
            try:
                for st in post:
                    I.exec_stmt(st, env2)
                ob("returns", False, "no return")
            except ReturnEx as r:
                items = r.value.items if isinstance(r.value, ListObj) else None
                ok = items is not None and len(items) == 2 and items[0] is marker and _tok(items[1]) == (tt["EOF"], "")
                ob("exactly-one-end-marker-appended-last", ok, repr(items))
            return {"obligations": obl, "labels": list(ps.labels)}
        ob("iterates-only-while-text-is-left", _valid(ps, i0 < text.n), "iteration at the end of the text")
        # classify the first character (the path condition decides it)
        def holds(f):
            return _valid(ps, f)

        idx = ctx.cur.get("index")
        chunk = ctx.cur.get("chunk")
        consumed = None
        if holds(z_is_digit(c0)):
            ob("digit-or-dot/no-raise", raised is None, f"raised {raised.exc.clsname if raised else ''}")
            run = [e for e in eat_calls if e[0] == "Tokenizer.is_number"]
            ok = raised is None and len(new) == 1 and len(run) >= 1 and _tok_is(new[0], tt["Constant"], text, i0, run[-1][2]) and run[-1][1].is_(i0, text.n)
            ob("digit-or-dot/one-constant-token-holding-the-maximal-run", ok, repr(new))
            consumed = run[-1][2] - i0 if run else None
        elif holds(z_is_alpha(c0)):
            ob("letter/no-raise", raised is None, f"raised {raised.exc.clsname if raised else ''}")
            run = [e for e in eat_calls if e[0] == "Tokenizer.is_alpha"]
            k = run[-1][2] if run else None
            ok_run = bool(run) and run[-1][1].is_(i0, text.n)
            whole = Slice(text, i0, k) if run else None
            is_fn = None
            if run:
                fn_cond = z3.Or([whole.eq(I, f) for f in fnames]) if fnames else z3.BoolVal(False)
                if holds(fn_cond):
                    is_fn = True
                elif holds(z3.Not(fn_cond)):
                    is_fn = False
            if is_fn is True:
                ok = raised is None and ok_run and len(new) == 1 and _tok_is(new[0], tt["Function"], text, i0, k)
                ob("letter/registered-function-name-is-one-function-token", ok, repr(new))
            elif is_fn is False:
                ok = raised is None and ok_run and _per_char(new, tt["Variable"], text, i0, k, ps)
                ob("letter/each-letter-of-the-run-is-its-own-variable", ok, repr(new))
            else:
                ob("letter/function-name-test-decided", False, "path does not decide whether the run is a function name")
            consumed = k - i0 if run else None
        else:
            # single character: whitespace / operator / unsupported
            # groups of characters with the same specified outcome
            groups = {("ws", None): list(WHITESPACE)}
            for ch, (tname, val) in OPERATORS.items():
                groups.setdefault((tname, val), []).append(ch)
            hit = None
            for key, chars in groups.items():
                if holds(z3.Or([c0 == ord(ch) for ch in chars])):
                    hit = (key, chars)
            if hit is None:
                others = z3.And([c0 != ord(ch) for ch in list(OPERATORS) + WHITESPACE])
                if holds(others):
                    ob("unsupported-character-raises-ValueError", raised is not None and raised.exc.clsname == "ValueError" and not raised.implicit and not new,
                       f"raised={raised.exc.clsname if raised else None} new={new}")
                    return {"obligations": obl, "labels": list(ps.labels)}
                ob("single-character/class-decided", False, "path does not decide the character class")
                return {"obligations": obl, "labels": list(ps.labels)}
            (tname, val), chars = hit
            label = "/".join(repr(c) for c in chars)
            ob(f"char {label}/no-raise", raised is None, f"raised {raised.exc.clsname if raised else ''}")
            if tname == "ws":
                if keep:
                    ok = len(new) == 1 and _tok(new[0])[0] == tt["Pad"] and _is_char(_tok(new[0])[1], text, i0)
                    ob("whitespace/kept-as-one-pad-token-with-that-character", ok, repr(new))
                else:
                    ob("whitespace/dropped-when-padding-excluded", not new, repr(new))
            else:
                ok = len(new) == 1 and _tok(new[0]) == (tt[tname], val)
                ob(f"char {label}/token-{tname}-with-normalised-value", ok, repr([_tok(t) for t in new if isinstance(t, Obj)]))
            consumed = z3.IntVal(1)
        if raised is None and consumed is not None:
            ob("consumes-at-least-one-character", _valid(ps, consumed >= 1), "no progress")
            ob("index-advanced-by-the-consumed-length", isinstance(idx, Num) and _valid(ps, zarith(idx) == i0 + consumed), repr(idx))
            ob("chunk-is-the-rest-of-the-buffer", isinstance(chunk, Slice) and _valid(ps, z3.And(chunk.lo == i0 + consumed, chunk.hi == text.n)), repr(chunk))
    finally:
        I.contracts = saved
    return {"obligations": obl, "labels": list(ps.labels)}


def _tok(t):
    if not isinstance(t, Obj):
        return (None, None)
    return (t.cur.get("type"), t.cur.get("value"))


def _is_char(v, text, i):
    return isinstance(v, SChar) and v.text is text and z3.is_true(z3.simplify(v.idx == i))


def _tok_is(t, ty, text, lo, hi):
    tp, v = _tok(t)
    return tp == ty and isinstance(v, Slice) and v.text is text and v.is_(lo, hi)


def _per_char(new, ty, text, lo, hi, ps):
    if not new:
        # empty run cannot happen (k > lo); an empty slice would append nothing
        return False
    if len(new) != 1 or not isinstance(new[0], Repeat):
        return False
    r = new[0]
    if not r.over.is_(lo, hi) or len(r.template) != 1:
        return False
    tp, v = _tok(r.template[0])
    return tp == ty and isinstance(v, SChar) and v.text is text and z3.is_true(z3.simplify(v.idx == r.index))


MUTATORS = {"append", "extend", "insert", "pop", "remove", "clear", "update", "setdefault", "popitem", "add", "discard", "sort", "reverse", "__setitem__", "__delitem__"}


def tokenizer_stateless(I: Interp, repo: str) -> List[Dict[str, Any]]:
    """`Tokenizer.tokenize(text)` is a function of the text and of the configuration set in __init__:
    (1) no method other than __init__ assigns, deletes or mutates an attribute of `self` (scan of the
    class as it is now); (2) the working context of a call is an object created by that call - it is
    not reachable from the tokenizer before the call (executed on the real statements before the loop);
    (3) the list that is returned is the context's token list, i.e. created by the call as well.
    Used by C11 (history independence of the segmentation proof) and by C12/C10 (which take
    tokenize by contract)."""
    out: List[Dict[str, Any]] = []

    def ob(clause, ok, detail=""):
        out.append({"clause": f"Tokenizer/stateless/{clause}", "ok": bool(ok), "detail": "" if ok else detail})

    src = open(os.path.join(repo, "mathy_core", "tokenizer.py")).read()
    tree = ast.parse(src)
    cls = next((n for n in tree.body if isinstance(n, ast.ClassDef) and n.name == "Tokenizer"), None)
    if cls is None:
        ob("class-found", False, "class Tokenizer missing")
        return out

    def on_self(n):
        return isinstance(n, ast.Attribute) and isinstance(n.value, ast.Name) and n.value.id == "self"

    for m in cls.body:
        if not isinstance(m, ast.FunctionDef) or m.name == "__init__":
            continue
        bad = []
        aliases = set()  # local names bound to self.<attr> (then mutated through the alias)
        for n in ast.walk(m):
            if isinstance(n, ast.Assign) and on_self(n.value):
                for t in n.targets:
                    if isinstance(t, ast.Name):
                        aliases.add(t.id)
        mutable_attrs = {"functions"}  # configuration that is a container: must not be mutated through an alias either
        for n in ast.walk(m):
            tgts = []
            if isinstance(n, ast.Assign):
                tgts = n.targets
            elif isinstance(n, (ast.AugAssign, ast.AnnAssign)):
                tgts = [n.target]
            elif isinstance(n, ast.Delete):
                tgts = n.targets
            for t in tgts:
                for x in ast.walk(t):
                    if on_self(x) or (isinstance(x, (ast.Attribute, ast.Subscript)) and isinstance(x.value, ast.Name) and x.value.id in aliases):
                        bad.append(f"line {n.lineno}: store to {ast.unparse(t)}")
            if isinstance(n, ast.Call) and isinstance(n.func, ast.Attribute) and n.func.attr in MUTATORS:
                recv = n.func.value
                if on_self(recv) or (isinstance(recv, ast.Attribute) and on_self(recv.value)) or (isinstance(recv, ast.Name) and recv.id in aliases) \
                        or (isinstance(recv, ast.Attribute) and isinstance(recv.value, ast.Name) and recv.value.id in aliases):
                    bad.append(f"line {n.lineno}: {ast.unparse(n.func)}(...)")
            if isinstance(n, (ast.Global, ast.Nonlocal)):
                bad.append(f"line {n.lineno}: {type(n).__name__.lower()} statement")
        if bad:
            # a store into the tokenizer is not by itself a dependence on history (a correct cache would be one):
            # undecided here; the two executed obligations below and the bounded histories decide
            out.append({"clause": f"Tokenizer/stateless/{m.name}-does-not-modify-the-tokenizer", "ok": False, "undecided": True, "detail": "; ".join(bad[:3])})
        else:
            ob(f"{m.name}-does-not-modify-the-tokenizer", True)
    # module-level mutable state written from the class
    mod_names = {t.id for n in tree.body if isinstance(n, ast.Assign) for t in n.targets if isinstance(t, ast.Name)}
    for m in cls.body:
        if isinstance(m, ast.FunctionDef):
            for n in ast.walk(m):
                if isinstance(n, ast.Call) and isinstance(n.func, ast.Attribute) and n.func.attr in MUTATORS and isinstance(n.func.value, ast.Name) and n.func.value.id in mod_names:
                    ob(f"{m.name}-does-not-modify-module-state", False, f"line {n.lineno}: {ast.unparse(n.func)}(...)")
    # (2), (3): run the statements before the loop on a tokenizer built by its real __init__
    try:
        from pyvc.explore import explore as _explore

        def path(ps):
            I.ps = ps
            I.call_depth = 0
            res = []
            fv = I.get_func("mathy_core.tokenizer", "Tokenizer.tokenize")
            body = [st for st in fv.node.body if not (isinstance(st, ast.Expr) and isinstance(st.value, ast.Constant))]
            loops = [st for st in body if isinstance(st, ast.While)]
            if len(loops) != 1:
                raise OutOfSubset("tokenize: expected exactly one while loop")
            pre = body[: body.index(loops[0])]
            tok = I.instantiate(I.classes["Tokenizer"], [], {})
            before = set()

            def reach(v):
                if isinstance(v, Obj):
                    if id(v) in before:
                        return
                    before.add(id(v))
                    for x in v.cur.values():
                        reach(x)
                elif isinstance(v, ListObj):
                    before.add(id(v))
                    for x in v.items:
                        reach(x)
                elif isinstance(v, DictObj):
                    before.add(id(v))
                    for x in v.items.values():
                        reach(x)

            reach(tok)
            snap = {k: (id(v) if isinstance(v, (Obj, ListObj, DictObj)) else repr(v)) for k, v in tok.cur.items()}
            text = SymText("buf")
            ps.assume(text.n >= 0)
            env = Env(parent=fv.env)
            env.vars.update({"self": tok, "buffer": text.whole()})
            try:
                for st in pre:
                    I.exec_stmt(st, env)
            except PyRaise as pr:
                res.append(("setup-before-the-loop-does-not-raise", False, f"{pr.exc.clsname} at {pr.site}"))
                return res
            ctx = env.vars.get("context")
            if not isinstance(ctx, Obj):
                raise OutOfSubset("tokenize: no local `context` before the loop")
            if id(ctx) not in before:
                res.append(("context-is-created-by-the-call", True, ""))
                toks = ctx.cur.get("tokens")
                res.append(("token-list-is-created-by-the-call", isinstance(toks, ListObj) and id(toks) not in before and not toks.items, f"tokens={toks!r}"))
            else:
                # the context is held by the tokenizer: fine only if the setup rewinds ALL of it, whatever an
                # earlier - possibly aborted - call left there.  Havoc its fields and run the setup again.
                marker = I.new_obj(["object"], label="left-over-token")
                ctx.cur["tokens"] = ListObj([marker])
                ctx.cur["index"] = Num(ps.fresh("old_index", "Int"))
                ctx.cur["chunk"] = "left-over"
                ctx.cur["buffer"] = "left-over"
                env2 = Env(parent=fv.env)
                env2.vars.update({"self": tok, "buffer": text.whole()})
                try:
                    for st in pre:
                        I.exec_stmt(st, env2)
                except PyRaise as pr:
                    res.append(("setup-before-the-loop-does-not-raise", False, f"{pr.exc.clsname} at {pr.site}"))
                    return res
                c2 = env2.vars.get("context")
                toks = c2.cur.get("tokens") if isinstance(c2, Obj) else None
                clean = isinstance(toks, ListObj) and not toks.items and c2.cur.get("index") == 0 and isinstance(c2.cur.get("chunk"), Slice) and isinstance(c2.cur.get("buffer"), Slice)
                res.append(("reused-context-is-completely-rewound-by-the-setup", clean,
                            f"state of an earlier (possibly aborted) call survives: tokens={toks!r} index={c2.cur.get('index') if isinstance(c2, Obj) else None!r}"))
            snap2 = {k: (id(v) if isinstance(v, (Obj, ListObj, DictObj)) else repr(v)) for k, v in tok.cur.items()}
            res.append(("tokenizer-attributes-unchanged-by-the-setup", snap == snap2, f"{snap} -> {snap2}"))
            return res

        n = 0
        for o in _explore(path):
            if o.error is not None:
                out.append({"clause": "Tokenizer/stateless/in-subset", "ok": False, "undecided": True, "detail": f"out-of-subset: {o.error}"})
                continue
            for c, ok, d in o.result:
                n += 1
                ob(c, ok, d)
        if n == 0 and not any(x.get("undecided") for x in out):
            out.append({"clause": "Tokenizer/stateless/vacuous", "ok": False, "undecided": True, "detail": "no path"})
    except OutOfSubset as e:
        out.append({"clause": "Tokenizer/stateless/in-subset", "ok": False, "undecided": True, "detail": f"out-of-subset: {e}"})
    return out


def run(tier: str, seed: int) -> int:
    R = Result("C11", tier, seed)
    I = Interp(REPO)
    try:
        I.load_module("mathy_core.tokenizer")
    except Exception as e:  # noqa: BLE001
        R.engine_errors.append(f"cannot load sources: {e!r}")
        return R.finish()
    jobs = [("is_alpha", lambda ps: charclass_path(I, ps, "is_alpha")), ("is_number", lambda ps: charclass_path(I, ps, "is_number")),
            ("eat_token", lambda ps: eat_token_path(I, ps)), ("tokenize", lambda ps: tokenize_step_path(I, ps))]
    n_obl = n_ok = 0
    per: Dict[str, int] = {}
    samples = []
    for ob in tokenizer_stateless(I, REPO):
        if ob.get("undecided"):
            R.undecided.append(f"stateless: {ob['detail']}")
            continue
        n_obl += 1
        per["stateless"] = per.get("stateless", 0) + 1
        if ob["ok"]:
            n_ok += 1
        else:
            R.violation(f"obligation C11/{ob['clause']} failed: {ob['detail'][:240]}", {"obligation": ob}, False)
    for name, fn in jobs:
        try:
            outs = explore(fn)
        except OutOfSubset as e:
            R.undecided.append(f"{name}: out-of-subset: {e}")
            continue
        for o in outs:
            if o.error is not None:
                R.undecided.append(f"{name}: out-of-subset: {o.error}")
                continue
            for ob in o.result["obligations"]:
                n_obl += 1
                per[name] = per.get(name, 0) + 1
                if ob["ok"]:
                    n_ok += 1
                    if len(samples) < 4 and ("maximal-run" in ob["clause"] or "own-variable" in ob["clause"] or "res-extended" in ob["clause"]):
                        samples.append({"obligation": f"C11/{ob['clause']}", "path": o.result["labels"][-6:], "status": "proved"})
                else:
                    R.violation(f"obligation C11/{ob['clause']} failed on path {o.result['labels'][-8:]}: {ob['detail'][:240]}", {"obligation": ob, "path": o.result["labels"]}, False)
        if per.get(name, 0) == 0 and not any(u.startswith(name) for u in R.undecided):
            R.engine_errors.append(f"vacuous: no obligation for {name}")
    n = 4 if tier == "quick" else 5
    p = run_venv("token_tierb.py", [str(n)], timeout=7200)
    bounded = {}
    if p.returncode not in (0, 1):
        R.engine_errors.append("tier-B failed: " + p.stderr[-300:])
    else:
        bounded = tierb_json(p, R)
        for f in bounded.get("failures", [])[:6]:
            R.violation(f"bounded check on real code: {f['clause']}: {f['detail'][:300]}", {"failure": f}, True)
    R.level = "proof" if not R.undecided and n_ok == n_obl else "other"
    from . import engine_diff

    diff_summary = engine_diff.report(R, engine_diff.parse_diff(), "parser and tokenizer on concrete strings")
    R.coverage = {
        "engine_differential": diff_summary,
        "obligations": n_obl,
        "discharged": n_ok,
        "checker_cmd": f"/verif/bin/check C11 --tier {tier}",
        "trusted_base": ["pyvc symbolic executor", "strings as (uninterpreted character function, bounds); Python slice/concatenation semantics as encoded in pyvc/strings.py",
                         "summary of the per-letter loop (`for c in run: append(Token(c, Variable))`): executed once for a generic position, accepted only if its sole effect is that append",
                         "induction over loop iterations (invariant: chunk == buffer[index:], tokens == specified segmentation of buffer[:index])",
                         "dict membership of the letter run in `functions` compares whole strings"],
        "obligations_per_function": per,
        "functions_under_contract": ["Tokenizer.is_alpha", "Tokenizer.is_number", "Tokenizer.eat_token", "Tokenizer.tokenize", "Tokenizer.identify_constants / identify_alphas / identify_operators (inlined into the tokenize step)"],
        "samples": samples,
        "explanation": "loop invariants for eat_token and tokenize on texts of arbitrary length; step specification from the property",
        "bounded": {k: v for k, v in bounded.items() if k not in ("failures", "alphabet")},
    }
    R.assumptions = ["characters are code points; the three normalisations and the operator table are the property's"]
    return R.finish()
