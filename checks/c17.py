"""C17: generated problems are valid.

Deductive (for every outcome of the random module, modelled as havoc within its documented ranges):
  * split_in_two_random: lower + higher == value, 0 <= lower <= higher, for every uniform(0,1) draw;
  * get_rand_vars: length, distinctness and exclusions from the contract of random.sample; ValueError
    exactly for impossible requests (exclusion lists: three representative concrete lists).
Not decidable by a contract within reach: "the generated text parses / really has like terms for all
seeds" composes random string assembly with the parser.  Bounded stand-in: seeds x a grid of parameter
settings x both number modes on the real code.
"""
from __future__ import annotations

import json
from typing import Any, Dict, List

import z3

from pyvc import externals
from pyvc.explore import explore, prove
from pyvc.interp import Interp, PathState
from pyvc.values import ListObj, Num, Obj, OutOfSubset, PyRaise, SymList, zarith

from .common import REPO, Result, run_venv, tierb_json


def _valid(ps, goal):
    return prove(ps.pc, [], goal, timeout_ms=10000).status == "proved"


def split_path(I: Interp, ps: PathState) -> Dict[str, Any]:
    I.ps = ps
    I.call_depth = 0
    obl = []
    v = Num(z3.Int("value"))
    ps.assume(v.v >= 0)
    f = I.get_func("mathy_core.problems", "split_in_two_random")
    try:
        ret = I.call_function(f, [v], {})
    except PyRaise as pr:
        obl.append({"clause": "split_in_two_random/no-raise", "ok": False, "detail": f"raised {pr.exc.clsname} at {pr.site}"})
        return {"obligations": obl, "labels": list(ps.labels)}
    ok = isinstance(ret, tuple) and len(ret) == 2 and all(isinstance(x, (Num, int)) for x in ret)
    if ok:
        lo, hi = zarith(ret[0]), zarith(ret[1])
        obl.append({"clause": "split_in_two_random/parts-sum-to-the-input", "ok": _valid(ps, lo + hi == v.v), "detail": f"{ret}"})
        obl.append({"clause": "split_in_two_random/0<=lower<=higher", "ok": _valid(ps, z3.And(0 <= lo, lo <= hi)), "detail": f"{ret}"})
    else:
        obl.append({"clause": "split_in_two_random/returns-a-pair", "ok": False, "detail": repr(ret)})
    return {"obligations": obl, "labels": list(ps.labels)}


def rand_vars_path(I: Interp, ps: PathState) -> Dict[str, Any]:
    I.ps = ps
    I.call_depth = 0
    obl = []
    k = Num(z3.Int("num_vars"))
    ps.assume(k.v >= 0)
    which = ps.choose(3, "exclusions")
    excl = [None, ListObj(["x"]), ListObj(["x", "y", "q", "a"])][which]
    common = ps.choose(2, "common") == 1
    pool = I.modules["mathy_core.problems"].env.vars["common_variables" if common else "variables"].items
    ex = excl.items if excl is not None else []
    avail = [v for v in pool if v not in ex]
    sampled = {}

    def c_sample(I2, args, kw):
        pop, kk = args
        if not isinstance(pop, ListObj):
            raise OutOfSubset("random.sample of a non-list")
        if not _valid(ps, zarith(kk) <= len(pop.items)):
            I2.raise_("ValueError", "Sample larger than population or is negative", site="random.sample")
        sampled["pop"], sampled["k"] = list(pop.items), kk
        sl = SymList(zarith(kk), descr="sample")
        sl.distinct = True
        sl.population = list(pop.items)
        return sl

    I.external["random.sample"] = c_sample
    f = I.get_func("mathy_core.problems", "get_rand_vars")
    try:
        ret = I.call_function(f, [k, excl, common], {})
        raised = None
    except PyRaise as pr:
        ret, raised = None, pr
    possible = z3.And(k.v <= 25, k.v <= len(avail))
    if raised is not None:
        obl.append({"clause": "get_rand_vars/ValueError-only-for-impossible-requests", "ok": raised.exc.clsname == "ValueError" and _valid(ps, z3.Not(possible)), "detail": f"raised {raised.exc.clsname} at {raised.site}"})
    else:
        ok = isinstance(ret, SymList) and getattr(ret, "distinct", False) and _valid(ps, ret.length == k.v)
        obl.append({"clause": "get_rand_vars/returns-num_vars-distinct-variables", "ok": ok, "detail": repr(ret)})
        popok = isinstance(ret, SymList) and all(v in pool and v not in ex for v in getattr(ret, "population", ["?"])) and set(getattr(ret, "population", [])) == set(avail)
        obl.append({"clause": "get_rand_vars/drawn-from-the-pool-minus-exclusions", "ok": popok, "detail": str(getattr(ret, "population", None))})
        obl.append({"clause": "get_rand_vars/succeeds-whenever-possible", "ok": _valid(ps, possible), "detail": "returned although impossible"})
    return {"obligations": obl, "labels": list(ps.labels)}


def run(tier: str, seed: int) -> int:
    R = Result("C17", tier, seed)
    I = Interp(REPO)
    externals.install(I)
    try:
        I.load_module("mathy_core.problems")
    except Exception as e:  # noqa: BLE001
        R.engine_errors.append(f"cannot load sources: {e!r}")
        return R.finish()
    n_obl = n_ok = 0
    samples = []
    for name, fn in (("split_in_two_random", lambda ps: split_path(I, ps)), ("get_rand_vars", lambda ps: rand_vars_path(I, ps))):
        try:
            outs = explore(fn)
        except OutOfSubset as e:
            R.undecided.append(f"{name}: out-of-subset: {e}")
            continue
        cnt = 0
        for o in outs:
            if o.error is not None:
                R.undecided.append(f"{name}: out-of-subset: {o.error}")
                continue
            for ob in o.result["obligations"]:
                n_obl += 1
                cnt += 1
                if ob["ok"]:
                    n_ok += 1
                    if len(samples) < 3:
                        samples.append({"obligation": f"C17/{ob['clause']}", "path": o.result["labels"], "status": "proved"})
                else:
                    R.violation(f"obligation C17/{ob['clause']} failed on path {o.result['labels']}: {ob['detail'][:240]}", {"obligation": ob, "path": o.result["labels"]}, False)
        if cnt == 0 and not any(u.startswith(name) for u in R.undecided):
            R.engine_errors.append(f"vacuous: no obligation for {name}")
    nseeds = 1500 if tier == "quick" else 20000
    p = run_venv("gen_tierb.py", [str(nseeds)], timeout=7200)
    bounded = {}
    if p.returncode not in (0, 1):
        R.engine_errors.append("tier-B failed: " + p.stderr[-300:])
    else:
        bounded = tierb_json(p, R)
        for f in bounded.get("failures", [])[:6]:
            R.violation(f"bounded check on real code: {f['clause']}: {f['detail'][:300]}", {"failure": f}, True)
    R.level = "other"
    R.coverage = {
        "explanation": "helper contracts (split, variable selection) deductive under a havoc model of the random module; the main clause (text parses, positive complexity, promised like terms) is only checked on a bounded set of seeds and parameter settings",
        "obligations": n_obl,
        "discharged": n_ok,
        "checker_cmd": f"/verif/bin/check C17 --tier {tier}",
        "trusted_base": ["pyvc symbolic executor", "random.uniform/random.sample contracts (havoc within documented ranges; sample returns distinct members of its population)", "int(x) truncates toward zero"],
        "functions_under_contract": ["split_in_two_random", "get_rand_vars"],
        "samples": samples,
        "bounded": {k: v for k, v in bounded.items() if k != "failures"},
    }
    R.assumptions = ["the all-seeds quantifier of the main clause is NOT decided: bounded sample of seeds (offset by VERIF_SEED)"]
    return R.finish()
