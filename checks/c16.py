"""C16: term analysis.

Deductive:
  * get_term_ex on every natural-order term form as the REAL parser builds it (the parser is executed
    symbolically on the term's token-type sequence with symbolic coefficient / variable / exponent):
    returns exactly the written triple;
  * make_term(c, x, e): value c * x^e for symbolic c, e, and get_term_ex(make_term(c, x, e)) gives the
    triple back (coefficient 1 == absent);
  * factor: the contract used by the rule proofs, against the loop (invariant on the recorded dict
    updates of one arbitrary iteration) - every entry k -> value/k with k a positive integer divisor pair,
    1 and value always present, completeness by the lemma d*e = n and d,e > floor(sqrt n) is impossible.
Bounded (walks whole trees through closures / popped lists): has_like_terms invariance under
reordering and regrouping, reflexivity/symmetry of terms_are_like, never-raise of the term predicates.
"""
from __future__ import annotations

import ast
import json
from typing import Any, Dict, List

import z3

from pyvc import externals
from pyvc.explore import explore, prove
from pyvc.heap import DEFPOW, POW, SIGMA
from pyvc.interp import Env, Interp, PathState
from pyvc.parsesym import make_interp as make_parse_interp, run_parse
from pyvc.values import NAN, DictObj, IdStr, ListObj, Num, Obj, OutOfSubset, PyRaise, ReturnEx, TupleObj, zreal

from .common import REPO, Result, load_known, match_known, run_venv, tierb_json

# token-type sequence of each natural-order term form -> (coefficient, variable, exponent) as written:
# entries are ('c', token index, sign) / ('v', token index) / ('lit', value) / None
TERM_FORMS = [
    (["Constant"], (("c", 0, 1), None, None)),
    (["Variable"], (None, ("v", 0), None)),
    (["Constant", "Variable"], (("c", 0, 1), ("v", 1), None)),
    (["Constant", "Variable", "Exponent", "Constant"], (("c", 0, 1), ("v", 1), ("c", 3, 1))),
    (["Variable", "Exponent", "Constant"], (None, ("v", 0), ("c", 2, 1))),
    (["Minus", "Variable"], (("lit", -1), ("v", 1), None)),
    (["Minus", "Variable", "Exponent", "Constant"], (("lit", -1), ("v", 1), ("c", 3, 1))),
    (["Minus", "Constant"], (("c", 1, -1), None, None)),
    (["Minus", "Constant", "Variable"], (("c", 1, -1), ("v", 2), None)),
    (["Minus", "Constant", "Variable", "Exponent", "Constant"], (("c", 1, -1), ("v", 2), ("c", 4, 1))),
    (["Variable", "Exponent", "Minus", "Constant"], (None, ("v", 0), ("c", 3, -1))),
    (["Constant", "Variable", "Exponent", "Minus", "Constant"], (("c", 0, 1), ("v", 1), ("c", 4, -1))),
]


def _valid(ps, goal, axioms=()):
    return prove(ps.pc, list(axioms), goal, timeout_ms=10000).status == "proved"


def _same_field(ps, got, want, leaves):
    if want is None:
        return got is None
    if want[0] == "lit":
        return isinstance(got, (int, float)) and got == want[1] or (isinstance(got, Num) and _valid(ps, zreal(got) == want[1]))
    if want[0] == "c":
        leaf = leaves[want[1]]
        return isinstance(got, Num) and _valid(ps, zreal(got) == want[2] * zreal(leaf))
    if want[0] == "v":
        leaf = leaves[want[1]]
        return isinstance(got, IdStr) and z3.eq(got.code, leaf.code)
    return False


def term_form_path(I: Interp, ps: PathState, idx: int, embed: bool) -> Dict[str, Any]:
    types, want = TERM_FORMS[idx]
    seq = list(types) + (["Plus", "Variable"] if embed else [])
    kind, val, leaves = run_parse(I, ps, seq)
    name = " ".join(types) + (" (as the left addend of a sum)" if embed else "")
    if kind != "tree":
        return {"obligations": [{"clause": f"get_term_ex/{name}/parses", "ok": False, "detail": f"parser raised {val.exc.clsname}"}], "labels": list(ps.labels)}
    node = val.cur["left"] if embed else val
    f = I.get_func("mathy_core.util", "get_term_ex")
    try:
        got = I.call_function(f, [node], {})
    except PyRaise as pr:
        return {"obligations": [{"clause": f"get_term_ex/{name}/no-raise", "ok": False, "detail": f"raised {pr.exc.clsname} at {pr.site}"}], "labels": list(ps.labels)}
    ok = isinstance(got, TupleObj) and len(got.values) == 3 and all(_same_field(ps, g, w, leaves) for g, w in zip(got.values, want))
    return {"obligations": [{"clause": f"get_term_ex/{name}/returns-the-written-triple", "ok": ok, "detail": "" if ok else f"got {got}"}], "labels": list(ps.labels)}


def fresh_value(o: Obj):
    """Denotation of a tree of program-built nodes."""
    k = o.clsname
    if k == "ConstantExpression":
        return zreal(o.cur["value"])
    if k == "VariableExpression":
        v = o.cur["identifier"]
        return SIGMA(v.code)
    l, r = o.cur.get("left"), o.cur.get("right")
    if k == "MultiplyExpression":
        return fresh_value(l) * fresh_value(r)
    if k == "PowerExpression":
        return POW(fresh_value(l), fresh_value(r))
    raise OutOfSubset(f"unexpected node {k} in a term")


def make_term_path(I: Interp, ps: PathState) -> Dict[str, Any]:
    I.ps = ps
    I.call_depth = 0
    I.classes["BinaryTreeNode"].attrs["_idCounter"] = 0
    obl = []
    c = Num(z3.Real("coef"), (z3.Bool("coef_f"), False))
    has_v = ps.choose(2, "has-variable") == 0
    has_e = has_v and ps.choose(2, "has-exponent") == 0
    x = IdStr(z3.Int("var")) if has_v else None
    e = Num(z3.Real("exp"), (z3.Bool("exp_f"), False)) if has_e else None
    f = I.get_func("mathy_core.util", "make_term")
    g = I.get_func("mathy_core.util", "get_term_ex")
    try:
        t = I.call_function(f, [c, x, e], {})
    except PyRaise as pr:
        return {"obligations": [{"clause": "make_term/no-raise", "ok": False, "detail": f"raised {pr.exc.clsname} at {pr.site}"}], "labels": list(ps.labels)}
    want = c.v
    if has_v:
        want = c.v * (POW(SIGMA(x.code), e.v) if has_e else SIGMA(x.code))
    pw = [POW(SIGMA(x.code), z3.RealVal(1)) == SIGMA(x.code)] if has_v else []
    try:
        val = fresh_value(t)
        obl.append({"clause": "make_term/value-is-c-times-x-to-the-e", "ok": _valid(ps, val == want, pw), "detail": f"tree value {val}"})
    except (OutOfSubset, KeyError, AttributeError) as ex:
        obl.append({"clause": "make_term/value-is-c-times-x-to-the-e", "ok": False, "detail": f"{ex!r}"})
    try:
        back = I.call_function(g, [t], {})
        if not has_v:
            ok = isinstance(back, TupleObj) and isinstance(back.values[0], Num) and _valid(ps, zreal(back.values[0]) == c.v) and back.values[1] is None and back.values[2] is None
        else:
            co = back.values[0] if isinstance(back, TupleObj) else "?"
            ok_c = (co is None and _valid(ps, c.v == 1)) or (isinstance(co, Num) and _valid(ps, zreal(co) == c.v))
            ok = isinstance(back, TupleObj) and ok_c and isinstance(back.values[1], IdStr) and z3.eq(back.values[1].code, x.code) and \
                ((back.values[2] is None and not has_e) or (has_e and isinstance(back.values[2], Num) and _valid(ps, zreal(back.values[2]) == e.v)))
        obl.append({"clause": "make_term/get_term_ex-gives-the-triple-back", "ok": ok, "detail": f"{back}"})
    except PyRaise as pr:
        obl.append({"clause": "make_term/get_term_ex-gives-the-triple-back", "ok": False, "detail": f"raised {pr.exc.clsname}"})
    return {"obligations": obl, "labels": list(ps.labels)}


class RecDict:
    """The factor table in an arbitrary loop iteration: reads are not needed by the loop body; every
    update is recorded and must satisfy the invariant."""

    def __init__(self):
        self.sets = []

    def setitem(self, I, k, v):
        self.sets.append((k, v))

    def truth(self, I):
        return True


def factor_path(I: Interp, ps: PathState) -> Dict[str, Any]:
    I.ps = ps
    I.call_depth = 0
    obl = []

    def ob(clause, ok, detail=""):
        obl.append({"clause": f"factor/{clause}", "ok": bool(ok), "detail": detail if not ok else ""})

    fv = I.get_func("mathy_core.util", "factor")
    body = [st for st in fv.node.body if not (isinstance(st, ast.Expr) and isinstance(st.value, ast.Constant))]
    loops = [st for st in body if isinstance(st, ast.For)]
    if len(loops) != 1:
        raise OutOfSubset("factor: expected one for loop")
    loop = loops[0]
    li = body.index(loop)
    value = Num(z3.Real("value"), (z3.Bool("value_f"), False))
    ps.assume(z3.Implies(z3.Not(value.tag[0]), z3.IsInt(value.v)))
    env = Env(parent=fv.env)
    env.vars["value"] = value
    phase = ["prefix", "step", "exit"][ps.choose(3, "phase")]
    # ---- code before the loop (handles 0, NaN, negative values; builds the initial table)
    try:
        for st in body[:li]:
            I.exec_stmt(st, env)
        early = None
    except ReturnEx as r:
        early = r.value
    except PyRaise as pr:
        if phase == "prefix":
            ob("setup-does-not-raise", False, f"{pr.exc.clsname} at {pr.site}")
            return {"obligations": obl, "labels": list(ps.labels)}
        return {"obligations": [], "labels": list(ps.labels), "skip": True}
    v = value.v
    if early is not None:
        if phase != "prefix":
            return {"obligations": [], "labels": list(ps.labels), "skip": True}
        if isinstance(early, DictObj) and not early.items:
            # only NaN has no table at all; a number (the symbolic value here) always has the pair 1 * value
            ob("only-NaN-gives-the-empty-table", False, f"empty table for a number: {early}")
        elif isinstance(early, DictObj):
            items = list(early.items.items())
            ok = len(items) == 1 and items[0][0] == 1 and items[0][1] is value
            ob("non-positive-value-gives-{1: value}", ok and _valid(ps, v <= 0), f"{early}")
        else:
            ob("early-return-is-a-table", False, repr(early))
        return {"obligations": obl, "labels": list(ps.labels)}
    table = env.vars.get("factors")
    sq = env.vars.get("sqrt")
    if phase == "prefix":
        ok = isinstance(table, DictObj)
        if ok:
            ents = list(table.items.items())

            def zr(x):
                return zreal(x) if isinstance(x, (Num, int, float)) and not isinstance(x, bool) else None

            # every entry k -> w satisfies k * w == value, and the keys 1 and value are present
            sem = all(zr(k) is not None and zr(w) is not None and _valid(ps, zr(k) * zr(w) == v) for k, w in ents)
            has1 = any(zr(k) is not None and _valid(ps, zr(k) == 1) for k, _ in ents)
            hasv = any(zr(k) is not None and _valid(ps, zr(k) == v) for k, _ in ents)
            ob("initial-table-holds-1->value-and-value->1", sem and has1 and hasv and 1 <= len(ents) <= 2, f"{table}")
        else:
            ob("initial-table-holds-1->value-and-value->1", False, repr(table))
        ob("only-positive-values-reach-the-loop", _valid(ps, v > 0), "")
        # range bound: sqrt = int(np.sqrt(value) + 1), so i < sqrt implies i*i <= value (+ rounding slack)
        it = I.eval(loop.iter, env)
        from pyvc.interp import SymRange

        ob("loop-runs-over-range(2, int(sqrt(value)+1))", isinstance(it, SymRange) and it.lo == 2 and isinstance(it.hi, Num) and it.hi is sq, repr(it))
        return {"obligations": obl, "labels": list(ps.labels)}
    if phase == "step":
        i = Num(z3.Int("i"))
        from pyvc.values import zarith

        ps.assume(z3.And(i.v >= 2, i.v < zarith(sq)))
        rec = RecDict()
        env.vars["factors"] = rec
        I.assign_target(loop.target, i, env)
        from pyvc.values import BreakEx, ContinueEx

        try:
            I.exec_block(loop.body, env)
        except ContinueEx:
            pass  # the rest of this iteration is skipped: whatever was recorded so far is the step's effect
        except BreakEx:
            ob("step/loop-does-not-stop-early", False, "break inside the divisor loop")
        divides = z3.IsInt(v / i.v)
        if rec.sets:
            ob("step/updates-only-when-i-divides-value", _valid(ps, divides), "table updated although i does not divide value")
            ks = []
            for k, val in rec.sets:
                kz, vz = zreal(k), zreal(val)
                ks.append(kz)
                ob("step/entry-key-times-entry-equals-value", _valid(ps, z3.And(kz != 0, kz * vz == v)), f"{k} -> {val}")
                ob("step/key-is-i-or-value-over-i", _valid(ps, z3.Or(kz == i.v, kz == v / i.v)), f"{k}")
            ob("step/both-members-of-the-pair-are-recorded", len(ks) == 2 and _valid(ps, z3.Or(z3.And(ks[0] == i.v, ks[1] == v / i.v), z3.And(ks[1] == i.v, ks[0] == v / i.v))), f"{rec.sets}")
        else:
            ob("step/skips-exactly-the-non-divisors", _valid(ps, z3.Not(divides)), "divisor skipped")
        # i < int(sqrt(value) + 1): i <= sqrt(value) (np.sqrt assumed correctly rounded)
        s = env.vars.get("sqrt")
        return {"obligations": obl, "labels": list(ps.labels)}
    # exit: the function returns the table it built
    rec = RecDict()
    env.vars["factors"] = rec
    try:
        for st in body[li + 1 :]:
            I.exec_stmt(st, env)
        ob("returns-the-table", False, "no return")
    except ReturnEx as r:
        ob("returns-the-table", r.value is rec, repr(r.value))
    return {"obligations": obl, "labels": list(ps.labels)}


def completeness_lemma() -> Dict[str, Any]:
    """d * e == n with 1 <= d, e and s*s > n  =>  d < s or e < s  (every divisor pair has a member
    below the loop bound, so the loop meets every pair)."""
    d, e, n, s = z3.Ints("d e n s")
    goal = z3.Implies(z3.And(d >= 1, e >= 1, d * e == n, s >= 1, s * s > n), z3.Or(d < s, e < s))
    v = prove([], [], goal, timeout_ms=20000)
    return {"clause": "factor/lemma-every-divisor-pair-has-a-member-below-the-bound", "ok": v.status == "proved", "detail": v.status, "backend": v.backend}


def run(tier: str, seed: int) -> int:
    R = Result("C16", tier, seed)
    known = load_known()
    n_obl = n_ok = 0
    per: Dict[str, int] = {}
    samples = []

    def take(name, outs):
        nonlocal n_obl, n_ok
        for o in outs:
            if o.error is not None:
                R.undecided.append(f"{name}: out-of-subset: {o.error}")
                continue
            for ob in o.result["obligations"]:
                n_obl += 1
                per[name] = per.get(name, 0) + 1
                if ob["ok"]:
                    n_ok += 1
                    if len(samples) < 4:
                        samples.append({"obligation": f"C16/{ob['clause']}", "status": "proved"})
                else:
                    k = match_known(known, "C16", {"cfg": name, "clause": ob["clause"], "shape": {}, "cases": [], "detail": ob["detail"]})
                    if k is not None:
                        R.known(k)
                    else:
                        R.violation(f"obligation C16/{ob['clause']} failed on path {o.result['labels'][-6:]}: {ob['detail'][:240]}", {"obligation": ob, "path": o.result["labels"]}, False)

    try:
        I = make_parse_interp(REPO)
        I.load_module("mathy_core.util")
        from pyvc.rulecheck import c_factor

        for idx in range(len(TERM_FORMS)):
            for embed in (False, True):
                try:
                    take("get_term_ex", explore(lambda ps, idx=idx, embed=embed: term_form_path(I, ps, idx, embed)))
                except OutOfSubset as e:
                    R.undecided.append(f"get_term_ex: out-of-subset: {e}")
        for name, fn in (("make_term", lambda ps: make_term_path(I, ps)), ("factor", lambda ps: factor_path(I, ps))):
            try:
                take(name, explore(fn))
            except OutOfSubset as e:
                R.undecided.append(f"{name}: out-of-subset: {e}")
    except Exception as e:  # noqa: BLE001
        import traceback

        R.engine_errors.append(f"engine failure: {e!r} {traceback.format_exc()[-300:]}")
    # get_terms as a fold step over the in-order traversal (order / grouping invariance of the collected terms)
    from .c16_terms import run_terms

    tr = run_terms(REPO)
    for e in tr["errors"]:
        R.undecided.append(e)
    seen_t = set()
    for ob in tr["obligations"]:
        n_obl += 1
        per["get_terms"] = per.get("get_terms", 0) + 1
        if ob["ok"]:
            n_ok += 1
        elif (ob["clause"], ob["detail"][:80]) not in seen_t:
            seen_t.add((ob["clause"], ob["detail"][:80]))
            R.violation(f"obligation C16/{ob['clause']} failed on path {ob['labels'][-6:]}: {ob['detail'][:240]}", {"obligation": ob, "path": ob["labels"]}, False)
    lem = completeness_lemma()
    n_obl += 1
    if lem["ok"]:
        n_ok += 1
    else:
        R.undecided.append(f"{lem['clause']}: {lem['detail']}")
    for name in ("get_term_ex", "make_term", "factor", "get_terms"):
        if per.get(name, 0) == 0 and not any(u.startswith(name) for u in R.undecided):
            R.engine_errors.append(f"vacuous: no obligation for {name}")
    p = run_venv("util_tierb.py", [tier], timeout=7200)
    bounded = {}
    if p.returncode not in (0, 1):
        R.engine_errors.append("tier-B failed: " + p.stderr[-300:])
    else:
        bounded = tierb_json(p, R)
        for f in bounded.get("failures", [])[:8]:
            k = match_known(known, "C16", {"cfg": "tierb", "clause": f["clause"], "shape": {}, "cases": [], "detail": f["detail"]})
            if k is not None:
                R.known(k)
                continue
            R.violation(f"bounded check on real code: {f['clause']}: {f['detail'][:300]}", {"failure": f}, True)
    R.level = "other"
    from . import engine_diff

    diff_summary = engine_diff.report(R, engine_diff.methods_diff(), "evaluate / clone / traversals / rotate / term functions on concrete trees")
    R.coverage = {
        "engine_differential": diff_summary,
        "explanation": "get_term_ex / make_term / factor: deductive; get_terms: deductive fold step over the traversal contract (never stops, appends exactly the non-additive operands); has_like_terms invariance (the rest of it), terms_are_like reflexive+symmetric, never-raise: bounded enumeration on the real code",
        "obligations": n_obl,
        "discharged": n_ok,
        "obligations_per_function": per,
        "checker_cmd": f"/verif/bin/check C16 --tier {tier}",
        "trusted_base": ["pyvc symbolic executor", "numpy.sqrt correctly rounded (the loop bound int(sqrt(v)+1) exceeds floor(sqrt v)); stated for values below 2^52",
                         "value % i == 0 on reals means value / i is an integer", "pow(b, 1) = b"],
        "functions_under_contract": ["util.get_term_ex", "util.make_term", "util.factor", "util.get_terms (closure step)", "ExpressionParser._parse (term forms)"],
        "samples": samples,
        "bounded": {k: v for k, v in bounded.items() if k != "failures"},
    }
    R.assumptions = ["whole-tree term predicates are only checked on the bounded scope stated under 'bounded'"]
    return R.finish()
