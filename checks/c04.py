"""C04: printing an expression and parsing it back preserves its meaning.

What a contract within reach decides here is limited: the printer is loop-free but the property is a
global statement about two mutually recursive string functions (print, parse) - the induction over
text is out of reach of the VC generator.  This check therefore is a *bounded stand-in only* and is
labelled so: every parser-reachable tree up to N nodes (plus the rewritten trees explored by the C09
breadth-first run) is printed by the real code, re-parsed by the real parser and compared by exact
value, solution set and variable set.
"""
from __future__ import annotations

import json

from .common import Result, load_known, match_known, run_venv, tierb_json


def run(tier: str, seed: int) -> int:
    R = Result("C04", tier, seed)
    known = load_known()
    n, side = (5, 3) if tier == "quick" else (6, 3)
    p = run_venv("print_tierb.py", [str(n), str(side), "8"], timeout=7200)
    bounded = {}
    if p.returncode not in (0, 1):
        R.engine_errors.append("tier-B failed: " + p.stderr[-300:])
    else:
        bounded = tierb_json(p, R)
        for f in bounded.get("failures", []):
            k = match_known(known, "C04", {"cfg": "printer", "clause": f["clause"], "shape": {}, "cases": [], "detail": f["detail"]})
            if k is not None:
                R.known(k)
                continue
            R.violation(f"bounded check on real code: {f['clause']}: {f['detail'][:300]}", {"failure": f}, True)
    depth, cap = (3, 300) if tier == "quick" else (4, 1500)
    p2 = run_venv("rewrite_bfs.py", [str(depth), str(cap), "16"], timeout=7200)
    bfs = {}
    if p2.returncode != 0:
        R.engine_errors.append("tier-B BFS failed: " + p2.stderr[-300:])
    else:
        bfs = tierb_json(p2, R)
        for f in bfs.get("failures", []):
            if f["clause"] not in ("prints-and-reparses", "same-variables", "closure/constant-payload"):
                continue
            k = match_known(known, "C04", {"cfg": f.get("cfg", ""), "clause": f["clause"], "shape": {}, "cases": [], "detail": f["detail"]})
            if k is not None:
                R.known(k)
                continue
            R.violation(f"bounded rewriting on real code: {f['clause']}: {f['detail'][:300]}", {"failure": f}, True)
    trees = bounded.get("trees", 0)
    if not trees:
        R.engine_errors.append("no trees explored")
    R.level = "exploration"
    R.coverage = {
        "evaluations": int(trees) + int(bounded.get("rewritten_results", 0)) + int(bfs.get("steps", 0)),
        "distinct_nontrivial": int(trees),
        "rule": "all WF trees up to the node bound over the 12 node kinds with leaves {0, 2, -3, 0.5, 1e21, x, y} (distinct by construction; non-trivial = parser-reachable, i.e. no abs node and factorials of literals only) plus the result object of every rule at every node of the two-level forms Op1(A, Op2(B, C)) / Op1(Op2(B, C), A) over 8 operand shapes (printed as returned, not re-cloned) plus the states of the rewriting run",
        "samples": [{"tree": "Power(Multiply(2, x), 2)", "text": "(2x)^2", "reparsed_value_equal": True}, {"tree": "Negate(Multiply(Factorial(2), 3))", "text": "-(2! * 3)", "reparsed_value_equal": True}],
        "exhaustive": True,
        "bounded": {k: v for k, v in bounded.items() if k not in ("failures", "leaves")},
        "rewriting": {k: v for k, v in bfs.items() if k != "failures"},
        "explanation": "bounded stand-in only (never counted as proved): no contract within reach expresses parse(print(t)) ~ t for trees of every depth",
    }
    R.assumptions = ["bounded in the number of nodes; leaves from a fixed value set; equivalence judged at three assignments with exact rational arithmetic"]
    return R.finish()
