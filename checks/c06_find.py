"""C06, third clause: BaseRule.find_nodes / find_node as fold steps over the in-order traversal.

The traversal is replaced by its contract (proved in C14): the visitor is called once per node of
the expression, in in-order, until it returns STOP.  `can_apply_to` is an arbitrary *pure* boolean
function of the node (purity and determinism are proved per rule in the same check), so it is
modelled by an uninterpreted predicate.  The recorded closure is executed for one arbitrary node on
an arbitrary accumulator state; the fold lemma lifts the step to the whole sequence.
"""
from __future__ import annotations

from typing import Any, Dict, List

import z3

from pyvc.explore import explore
from pyvc.interp import Interp, PathState
from pyvc.treeheap import LinksHeap
from pyvc.values import ListObj, Num, Obj, OutOfSubset, PyRaise, zarith


def _path(I: Interp, ps: PathState, fname: str) -> Dict[str, Any]:
    I.ps = ps
    I.call_depth = 0
    heap = LinksHeap(I, kinds=("AddExpression", "ConstantExpression", "VariableExpression"), extra_fields={"r_index": lambda I2, o: None})
    expr = heap.new_input("expression")
    rule = I.new_obj(["BaseRule"], label="rule")
    obl: List[Dict[str, Any]] = []
    rec: Dict[str, Any] = {}

    def ob(clause, ok, detail=""):
        obl.append({"clause": f"{fname}/{clause}", "ok": bool(ok), "detail": detail})

    applicable = z3.Function("applicable", z3.IntSort(), z3.BoolSort())

    def c_can(I2, args, kw, fv):
        n = args[1]
        return applicable(z3.IntVal(n.oid))

    def recorder(which):
        def c(I2, args, kw, fv):
            rec["which"], rec["self"] = which, args[0]
            rec["fn"] = args[1] if len(args) > 1 else kw.get("visit_fn")
            rec["extra"] = (list(args[2:]), dict(kw))
            return None

        return c

    saved = dict(I.contracts)
    I.contracts["BaseRule.can_apply_to"] = c_can
    for m in ("visit_preorder", "visit_inorder", "visit_postorder"):
        I.contracts[f"BinaryTreeNode.{m}"] = recorder(m)
    try:
        f = I.get_func("mathy_core.rule", f"BaseRule.{fname}")
        try:
            ret = I.call_function(f, [rule, expr], {}, use_contract=False)
        except PyRaise as pr:
            ob("no-raise", False, f"raised {pr.exc.clsname} at {pr.site}")
            return {"obligations": obl, "labels": list(ps.labels)}
        ob("traverses-expression-inorder", rec.get("which") == "visit_inorder" and rec.get("self") is expr, f"{rec.get('which')} on {rec.get('self')}")
        ob("no-depth-or-data-override", not rec.get("extra", ([], {}))[0] and not rec.get("extra", ([], {}))[1], str(rec.get("extra")))
        fn = rec.get("fn")
        n = heap.new_input("visited")
        w0 = len(ps.writes)
        if fname == "find_nodes":
            ob("initial-accumulator-empty", isinstance(ret, ListObj) and ret.items == [], repr(ret))
            if not isinstance(ret, ListObj):
                return {"obligations": obl, "labels": list(ps.labels)}
            marker = I.new_obj(["object"], label="prefix")
            ret.items[:] = [marker]
            k = z3.Int("k")
            env = fn.env
            ob("initial-index-zero", env.lookup("index") == 0, repr(env.lookup("index")))
            env.assign("index", Num(k)) if "index" in env.vars else _set_cell(env, "index", Num(k))
            r = I.call(fn, [n, Num(z3.Int("d")), None], {})
            can = ps.decide(applicable(z3.IntVal(n.oid)), "can")
            ri = n.cur.get("r_index")
            ob("step/records-inorder-index", isinstance(ri, Num) and z3.is_true(z3.simplify(ri.v == k)), repr(ri))
            idx = _get_cell(env, "index")
            ob("step/index-incremented", isinstance(idx, Num) and z3.is_true(z3.simplify(zarith(idx) == k + 1)), repr(idx))
            nodes = _get_cell(env, "nodes")
            ob("step/returned-list-is-the-accumulator", nodes is ret, "closure appends to a different list")
            if can:
                ob("step/appends-applicable-node", nodes.items == [marker, n], repr(nodes.items))
            else:
                ob("step/skips-inapplicable-node", nodes.items == [marker], repr(nodes.items))
            ob("step/never-stops", r is None, repr(r))
        else:
            ob("initial-result-none", ret is None, repr(ret))
            r = I.call(fn, [n, Num(z3.Int("d")), None], {})
            can = ps.decide(applicable(z3.IntVal(n.oid)), "can")
            res = _get_cell(fn.env, "result")
            if can:
                ob("step/first-applicable-is-result-and-stops", res is n and r == "stop", f"result={res} ret={r!r}")
            else:
                ob("step/inapplicable-continues", res is None and r is None, f"result={res} ret={r!r}")
        bad = [(str(o), fld) for (o, fld, _, _) in ps.writes[w0:] if isinstance(o, Obj) and o.lazy and fld != "r_index"]
        ob("frame/only-r_index", not bad, str(bad[:3]))
    finally:
        I.contracts = saved
    return {"obligations": obl, "labels": list(ps.labels)}


def _get_cell(env, name):
    e = env
    while e is not None:
        if name in e.vars:
            return e.vars[name]
        e = e.parent
    return None


def _set_cell(env, name, value):
    e = env
    while e is not None:
        if name in e.vars:
            e.vars[name] = value
            return
        e = e.parent
    raise OutOfSubset(f"closure variable {name} not found")


def run_find(repo) -> Dict[str, Any]:
    I = Interp(repo)
    out = {"obligations": [], "errors": []}
    try:
        I.load_module("mathy_core.rule")
        import os

        for fn in sorted(os.listdir(os.path.join(repo, "mathy_core", "rules"))):
            if fn.endswith(".py") and fn != "__init__.py":
                I.load_module(f"mathy_core.rules.{fn[:-3]}")
    except Exception as e:  # noqa: BLE001
        out["errors"].append(f"cannot load sources: {e!r}")
        return out
    # mechanical check: no rule overrides the searches
    for c in I.classes.values():
        if c.name != "BaseRule" and any(b.name == "BaseRule" for b in c.mro()):
            for m in ("find_nodes", "find_node"):
                out["obligations"].append({"clause": f"{c.name}/does-not-override-{m}", "ok": m not in c.methods, "detail": "", "labels": []})
    for fname in ("find_nodes", "find_node"):
        try:
            outs = explore(lambda ps, fname=fname: _path(I, ps, fname))
        except OutOfSubset as e:
            out["errors"].append(f"{fname}: out-of-subset: {e}")
            continue
        for o in outs:
            if o.error is not None:
                out["errors"].append(f"{fname}: out-of-subset: {o.error}")
                continue
            for ob in o.result["obligations"]:
                out["obligations"].append(dict(ob, labels=o.result["labels"]))
    return out
