"""Replay a stored violation file against the current /repo."""
from __future__ import annotations

import json
import sys

from .common import run_venv


def main() -> int:
    path = sys.argv[1]
    d = json.load(open(path))
    print(f"property={d.get('property')} what={d.get('what')}")
    f = d.get("failure") or {}
    wit = f.get("witness") if isinstance(f, dict) else None
    if wit and "tree" in wit:
        p = run_venv("rules_tierb.py", ["replay-stdin"], stdin=json.dumps([wit]))
        print(p.stdout[-3000:])
        try:
            out = json.loads(p.stdout)
            return 1 if out and out[0].get("failures") else 0
        except Exception:  # noqa: BLE001
            return 3
    if isinstance(f, dict) and f.get("input") and f.get("cfg") and f.get("node_path") is not None:
        spec = [{"text": f["input"], "rule": f["cfg"], "path": f["node_path"]}]
        p = run_venv("rules_tierb.py", ["text"], stdin=json.dumps(spec))
        print(p.stdout[-3000:])
        try:
            out = json.loads(p.stdout)
            return 1 if out and out[0] else 0
        except Exception:  # noqa: BLE001
            return 3
    print("no concrete input stored (obligation-level violation): verifier output follows")
    print(json.dumps(d, indent=1)[:4000])
    return 1


if __name__ == "__main__":
    sys.exit(main())
