"""C08: each rule performs its documented transformation on its documented forms.

For every schema of the rule documentation an instance with SYMBOLIC coefficients / exponents /
variable names and OPAQUE operands is built in the lazily initialised heap, its parent left unread
(arbitrary surrounding context).  Obligations per path of can_apply_to / apply_to on the real source:
  * acceptance: can_apply_to is True on EVERY instance (or False for documented non-applicability);
  * shape: the result tree matches the documented right-hand side, up to order and grouping of the
    operands of + and * and up to which common numeric factor is pulled out (scalar side conditions
    are discharged by z3).
Value preservation of the same steps is C01/C02; structure C07.
"""
from __future__ import annotations

import json
from typing import Any, Dict, List, Optional

import z3

from pyvc import values as _values
from pyvc.explore import explore, prove
from pyvc.heap import ALL12, BINARY, NOEQ, UNARY, ExprHeap
from pyvc.interp import Interp, PathState
from pyvc.rulecheck import RULE_CONFIGS, install_contracts, make_interp
from pyvc.values import NAN, IdStr, Num, Obj, OutOfSubset, PyRaise, zreal

from .common import REPO, Result, load_known, match_known, run_venv, tierb_json

K = {"+": "AddExpression", "-": "SubtractExpression", "*": "MultiplyExpression", "/": "DivideExpression", "^": "PowerExpression", "=": "EqualExpression",
     "neg": "NegateExpression"}


class Build:
    """Builds schema instances in the symbolic heap."""

    def __init__(self, I, ps, heap):
        self.I, self.ps, self.heap = I, ps, heap
        self.named: Dict[str, Obj] = {}

    def node(self, spec, parent=None, name=None) -> Obj:
        h = self.heap
        if isinstance(spec, str):
            name, spec = spec, ("any",)
        tag = spec[0]
        if tag == "any":
            o = h.new_input(NOEQ, label=name or "opq")
        elif tag == "const":
            o = h.new_input(["ConstantExpression"], label=name or "c")
        elif tag == "var":
            o = h.new_input(["VariableExpression"], label=name or "v")
            if len(spec) > 1:
                self._same_ident(o, spec[1])
        elif tag == "neg":
            o = h.new_input(["NegateExpression"], label=name or "neg")
            c = self.node(spec[1], o)
            o.init["left"] = o.cur["left"] = None
            o.init["right"] = o.cur["right"] = c
        elif tag == "term":
            # ('term', has_coefficient, has_exponent, variable key, exponent key)
            _, hc, he, vkey, ekey = spec
            v = ("var", vkey)
            core = ("^", v, ("const", ("exp", ekey))) if he else v
            return self.node(("*", ("const",), core) if hc else core, parent, name)
        elif tag in K:
            o = h.new_input([K[tag]], label=name or tag)
            l = self.node(spec[1], o)
            r = self.node(spec[2], o)
            o.init["left"] = o.cur["left"] = l
            o.init["right"] = o.cur["right"] = r
        else:
            raise ValueError(tag)
        if tag == "const" and len(spec) > 1 and spec[1] is not None:
            self._same_const(o, spec[1])
        if parent is not None:
            o.init["parent"] = o.cur["parent"] = parent
        if name:
            self.named[name] = o
        return o

    def _same_ident(self, o, key):
        k = ("ident", key)
        if k in self.named:
            self.ps.assume(o.ghost["ident"] == self.named[k].ghost["ident"])
        else:
            self.named[k] = o

    def _same_const(self, o, key):
        k = ("const", key)
        if k in self.named:
            self.ps.assume(o.ghost["cval"] == self.named[k].ghost["cval"])
        else:
            self.named[k] = o


def cur(o, f):
    return o.cur.get(f) if f in o.cur else o.init.get(f)


def is_kind(o, k):
    return isinstance(o, Obj) and o.kinds == frozenset([K.get(k, k)])


def orig(o):
    while isinstance(o, Obj) and o.mirror is not None:
        o = o.mirror[1]
    return o


def flatten(o, kind, init=False):
    """Operand sequence of a same-kind chain below o; an unread child slot is an atom of its own."""
    if not isinstance(o, Obj):
        return [o]
    if o.kinds != frozenset([kind]):
        return [id(o)]
    out = []
    for side in ("left", "right"):
        if init:
            known = side in o.init
            c = o.init.get(side)
        else:
            known = side in o.cur or side in o.init
            c = cur(o, side)
        if not known:
            out.append(("slot", id(o), side))
        elif c is None:
            out.append(("none", id(o), side))
        else:
            out += flatten(c, kind, init)
    return out


def flat_nodes(o, kind):
    """Operand nodes of a same-kind chain in the current heap."""
    if isinstance(o, Obj) and o.kinds == frozenset([kind]) and isinstance(cur(o, "left"), Obj) and isinstance(cur(o, "right"), Obj):
        return flat_nodes(cur(o, "left"), kind) + flat_nodes(cur(o, "right"), kind)
    return [o]


def const_value(o):
    v = cur(o, "value") if "value" in o.cur else None
    if v is None and (o.lazy or o.mirror is not None):
        return o.ghost["cval"]
    if isinstance(v, Num):
        return zreal(v)
    if isinstance(v, (int, float)) and not isinstance(v, bool):
        return zreal(v)
    return None


def term_of(o):
    """(coefficient z3 or None, ident code or None, exponent z3 or None) of a natural-order term node."""
    if is_kind(o, "ConstantExpression"):
        return (const_value(o), None, None)
    if is_kind(o, "VariableExpression"):
        return (None, _ident(o), None)
    if is_kind(o, "^") and is_kind(cur(o, "left"), "VariableExpression") and is_kind(cur(o, "right"), "ConstantExpression"):
        return (None, _ident(cur(o, "left")), const_value(cur(o, "right")))
    if is_kind(o, "*") and is_kind(cur(o, "left"), "ConstantExpression"):
        t = term_of(cur(o, "right"))
        if t is not None and t[0] is None:
            return (const_value(cur(o, "left")), t[1], t[2])
    return None


def _ident(o):
    v = o.cur.get("identifier")
    if isinstance(v, IdStr):
        return v.code
    return o.ghost["ident"] if (o.lazy or o.mirror is not None) else None


class Case:
    def __init__(self, name, cfg, build, expect_applicable=True, shape=None, assume=None):
        self.name, self.cfg, self.build, self.expect, self.shape, self.assume = name, cfg, build, expect_applicable, shape, assume


def run_case(I: Interp, ps: PathState, case: Case) -> Dict[str, Any]:
    I.ps = ps
    I.call_depth = 0
    obl: List[Dict[str, Any]] = []

    def ob(clause, ok, detail=""):
        obl.append({"clause": f"{case.name}/{clause}", "ok": bool(ok), "detail": detail if not ok else ""})

    heap = ExprHeap(I)
    install_contracts(I, heap)
    I.classes["BinaryTreeNode"].attrs["_idCounter"] = 0
    cfg = [c for c in RULE_CONFIGS if c[0] == case.cfg][0]
    _values.EPOCH[0] = 0
    rule = I.instantiate(I.modules[cfg[1]].env.vars[cfg[2]].info, [], dict(cfg[3]))
    _values.EPOCH[0] = 1
    B = Build(I, ps, heap)
    node, top = case.build(B)
    heap.top = top
    if case.assume:
        case.assume(B, ps)
    def valid(goal):
        return prove(list(ps.pc) + heap.kind_domains(), [], goal, timeout_ms=10000).status == "proved"

    try:
        can = I.truth(I.call_method(rule, "can_apply_to", [node], {}), "can")
    except PyRaise as pr:
        ob("can_apply_to-does-not-raise", False, f"raised {pr.exc.clsname} at {pr.site}")
        return {"obligations": obl, "labels": list(ps.labels)}
    if case.expect == "optional":
        # a form the documentation neither promises nor excludes: the rule may decline; if it accepts, the result
        # must still have the documented shape
        if not can:
            ob("declined-or-documented-shape", True)
            return {"obligations": obl, "labels": list(ps.labels)}
    elif not case.expect:
        ob("documented-non-applicability-respected", can is False, "rule reports applicable")
        return {"obligations": obl, "labels": list(ps.labels)}
    else:
        ob("every-instance-is-accepted", can is True, "rule reports not applicable on this instance")
        if not can:
            return {"obligations": obl, "labels": list(ps.labels), "rejected": True}
    try:
        change = I.call_method(rule, "apply_to", [node], {})
    except PyRaise as pr:
        ob("apply_to-does-not-raise", False, f"raised {pr.exc.clsname} at {pr.site}")
        return {"obligations": obl, "labels": list(ps.labels)}
    result = change.cur.get("result")
    try:
        ok, detail = case.shape(B, node, result, valid)
    except Exception as e:  # noqa: BLE001
        ok, detail = False, f"shape check failed: {e!r}"
    ob("result-has-the-documented-shape", ok, detail)
    return {"obligations": obl, "labels": list(ps.labels)}


# ------------------------------------------------------------------ the documented schemas
def cases() -> List[Case]:
    out: List[Case] = []

    # ---- commutative: a + b -> b + a ; a * b -> b * a ; not for - and /
    for op in ("+", "*"):
        def build(B, op=op):
            n = B.node((op, "a", "b"), name="node")
            return n, n

        def shape(B, node, result, valid, op=op):
            if result is not node or not is_kind(result, op):
                return False, f"result {result}"
            before = flatten(node, K[op], init=True)
            after = flatten(result, K[op])
            return (sorted(map(str, before)) == sorted(map(str, after)) and before != after), f"operands {before} -> {after}"

        out.append(Case(f"commutative_swap/a {op} b", "commutative_swap", build, True, shape))
    for op in ("-", "/"):
        out.append(Case(f"commutative_swap/not for a {op} b", "commutative_swap", (lambda B, op=op: (lambda n: (n, n))(B.node((op, "a", "b"), name="node"))), False))

    # ---- associative: (a + b) + c <-> a + (b + c), same for *
    for op in ("+", "*"):
        for side in ("left", "right"):
            def build(B, op=op, side=side):
                spec = (op, (op, "a", "b"), "c") if side == "left" else (op, "a", (op, "b", "c"))
                p = B.node(spec, name="parent")
                n = cur(p, side)
                B.named["node"] = n
                return n, p

            def shape(B, node, result, valid, op=op):
                p = B.named["parent"]
                before = flatten(p, K[op], init=True)
                top = node
                after = flatten(top, K[op])
                regrouped = cur(p, "parent") is node and (cur(node, "left") is p or cur(node, "right") is p)
                return (before == after and regrouped and result is node), f"sequence {before} -> {after}, regrouped={regrouped}"

            out.append(Case(f"associative_swap/({side}-nested {op})", "associative_swap", build, True, shape))
        out.append(Case(f"associative_swap/not under a different operator ({op})", "associative_swap",
                        (lambda B, op=op: (lambda p: (cur(p, "left"), p))(B.node(("-" if op == "+" else "/", (op, "a", "b"), "c"), name="parent"))), False))

    # ---- constant arithmetic: c1 op c2 -> c
    for op in ("+", "-", "*", "/", "^"):
        def build(B, op=op):
            n = B.node((op, ("const", "c1"), ("const", "c2")), name="node")
            return n, n

        def assume(B, ps, op=op):
            c1, c2 = B.named[("const", "c1")].ghost, B.named[("const", "c2")].ghost
            if op == "/":
                ps.assume(c2["cval"] != 0)
            if op == "^":
                # integer power with a small non-negative exponent (documented examples are of this kind)
                ps.assume(z3.And(z3.Not(c1["cfloat"]), z3.Not(c2["cfloat"]), c2["cval"] >= 0, z3.IsInt(c1["cval"]), z3.IsInt(c2["cval"])))

        def shape(B, node, result, valid, op=op):
            if not is_kind(result, "ConstantExpression"):
                return False, f"result {result}"
            v = cur(result, "value")
            if v is NAN or not isinstance(v, (Num, int, float)):
                return False, f"value {v!r}"
            a, b = B.named[("const", "c1")].ghost["cval"], B.named[("const", "c2")].ghost["cval"]
            from pyvc.heap import POW

            want = {"+": a + b, "-": a - b, "*": a * b, "/": a / b, "^": POW(a, b)}[op]
            return valid(zreal(v) == want), f"constant {v}"

        out.append(Case(f"constants_simplify/c1 {op} c2", "constants_simplify", build, True, shape, assume))

    # ---- constant arithmetic, documented chained arrangements: the two constants of a same-operator chain
    # are folded, every other operand stays (up to order and grouping)
    chained = [
        ("chained right", ("+", "*"), lambda op: (op, ("const", "c1"), (op, ("const", "c2"), "t")), ["t"]),
        ("chained right deep", ("+", "*"), lambda op: (op, ("const", "c1"), (op, (op, ("const", "c2"), "t"), "u")), ["t", "u"]),
        ("const * var * const", ("*",), lambda op: (op, (op, ("const", "c1"), ("var", "v")), ("const", "c2")), [("ident", "v")]),
        ("chained right left", ("*",), lambda op: (op, (op, ("const", "c1"), "t"), (op, ("const", "c2"), "u")), ["t", "u"]),
        ("chained right left left", ("*",), lambda op: (op, (op, ("const", "c1"), "t"), (op, (op, ("const", "c2"), "u"), "w")), ["t", "u", "w"]),
        ("chained left left right", ("*",), lambda op: (op, (op, "t", (op, ("const", "c1"), "u")), (op, ("const", "c2"), "w")), ["t", "u", "w"]),
    ]
    for label, ops_, mk, rest in chained:
        for op in ops_:
            def build(B, op=op, mk=mk, rest=rest):
                n = B.node(mk(op), name="node")
                for r in rest:
                    o = B.named[r]
                    if len(o.kinds) > 1:
                        # an operand that is neither a constant nor a chain of the same operator (else another documented form applies)
                        B.I.refine_kinds(o, o.kinds - frozenset(["ConstantExpression", K[op]]))
                return n, n

            def shape(B, node, result, valid, op=op, rest=rest):
                if not isinstance(result, Obj):
                    return False, f"result {result!r}"
                opers = flat_nodes(result, K[op])
                consts = [o for o in opers if is_kind(o, "ConstantExpression")]
                others = [orig(o) for o in opers if not is_kind(o, "ConstantExpression")]
                want = [B.named[r] for r in rest]
                if len(consts) != 1:
                    return False, f"{len(consts)} constants among the operands {opers}"
                if sorted(map(id, others)) != sorted(map(id, want)):
                    return False, f"other operands {others} instead of {want}"
                v = const_value(consts[0])
                a, b = B.named[("const", "c1")].ghost["cval"], B.named[("const", "c2")].ghost["cval"]
                if v is None:
                    return False, f"constant without a value: {consts[0]}"
                return valid(v == (a + b if op == "+" else a * b)), f"folded constant {v}"

            out.append(Case(f"constants_simplify/{label} ({op})", "constants_simplify", build, True, shape))

    # ---- distribute: a(b + c) -> ab + ac (either operand order)
    for where in ("right", "left"):
        def build(B, where=where):
            n = B.node(("*", "a", ("+", "b", "c")) if where == "right" else ("*", ("+", "b", "c"), "a"), name="node")
            # `a` itself is not a sum (otherwise the same form applies with the roles exchanged)
            B.I.refine_kinds(B.named["a"], B.named["a"].kinds - frozenset(["AddExpression"]))
            return n, n

        def shape(B, node, result, valid, where=where):
            if not is_kind(result, "+"):
                return False, f"result {result}"
            a, b, c = B.named["a"], B.named["b"], B.named["c"]
            sums = []
            for prod in (cur(result, "left"), cur(result, "right")):
                if not is_kind(prod, "*"):
                    return False, f"addend {prod}"
                ops = {id(orig(cur(prod, "left"))), id(orig(cur(prod, "right")))}
                fresh = all(isinstance(cur(prod, s), Obj) and cur(prod, s).mirror is not None for s in ("left", "right"))
                sums.append((ops, fresh))
            ok = sums[0][0] == {id(a), id(b)} and sums[1][0] == {id(a), id(c)} and all(f for _, f in sums)
            return ok, f"{sums}"

        out.append(Case(f"distributive_multiply_across/a(b + c) [{where}]", "distributive_multiply_across", build, True, shape))

    # ---- multiplicative inverse: a / b -> a * (1 / b) ; a / -b -> a * (-1 / b)
    def build_mi(B):
        n = B.node(("/", "a", "b"), name="node")
        return n, n

    def shape_mi(B, node, result, valid):
        a, b = B.named["a"], B.named["b"]
        if not is_kind(result, "*") or orig(cur(result, "left")) is not a or not is_kind(cur(result, "right"), "/"):
            return False, f"result {result}"
        d = cur(result, "right")
        one = cur(d, "left")
        if not is_kind(one, "ConstantExpression"):
            return False, "numerator of the reciprocal is not a constant"
        den = orig(cur(d, "right"))
        if den is b:
            return valid(const_value(one) == 1), "reciprocal numerator"
        # negative-denominator form: b = -(t) -> a * (-1 / t)
        if is_kind(b, "neg") and den is cur(b, "right"):
            return valid(const_value(one) == -1), "reciprocal numerator for a negated denominator"
        return False, f"denominator {den}"

    out.append(Case("multiplicative_inverse/a / b", "multiplicative_inverse", build_mi, True, shape_mi))

    # ---- restate subtraction: a - b -> a + (-b) (and the special forms), and back
    for ctx in ("root", "+", "="):
        def build_rs(B, ctx=ctx):
            if ctx == "root":
                n = B.node(("-", "a", "b"), name="node")
                B.heap.root = n
                n.init["parent"] = n.cur["parent"] = None
                return n, n
            p = B.node((ctx, ("-", "a", "b"), "z"), name="parent")
            if ctx == "=":
                B.heap.root = p
                p.init["parent"] = p.cur["parent"] = None
            n = cur(p, "left")
            B.named["node"] = n
            return n, p

        def shape_rs(B, node, result, valid):
            a, b = B.named["a"], B.named["b"]
            if not is_kind(result, "+") or cur(result, "left") is not a:
                return False, f"result {result}"
            r = cur(result, "right")
            if is_kind(r, "neg") and cur(r, "right") is b:
                return True, ""
            # special forms: b negative constant / negated variable / product or quotient with a leading constant
            if is_kind(b, "ConstantExpression") and is_kind(r, "ConstantExpression"):
                return valid(const_value(r) == -const_value(b)), "flipped constant"
            if is_kind(b, "neg") and orig(r) is cur(b, "right"):
                return True, ""
            if orig(r) is b and r.kinds == b.kinds and isinstance(cur(r, "left"), Obj) and is_kind(cur(r, "left"), "ConstantExpression"):
                return valid(const_value(cur(r, "left")) == -const_value(cur(b, "left"))), "flipped leading constant"
            return False, f"right operand {r}"

        out.append(Case(f"restate_subtraction/a - b [{ctx}]", "restate_subtraction", build_rs, True, shape_rs))

    def build_back(B):
        n = B.node(("+", "a", ("const", "c")), name="node")
        return n, n

    def assume_back(B, ps):
        ps.assume(B.named[("const", "c")].ghost["cval"] < 0)

    def shape_back(B, node, result, valid):
        if not is_kind(result, "-") or cur(result, "left") is not B.named["a"] or not is_kind(cur(result, "right"), "ConstantExpression"):
            return False, f"result {result}"
        return valid(const_value(cur(result, "right")) == -B.named[("const", "c")].ghost["cval"]), "constant"

    out.append(Case("restate_subtraction/a + (-c) back to a - c", "restate_subtraction", build_back, True, shape_back, assume_back))

    # ---- variable multiply: x^a * x^b -> x^(a + b) with optional coefficients / implicit exponents
    for hc1, he1, hc2, he2 in [(a, b, c, d) for a in (False, True) for b in (False, True) for c in (False, True) for d in (False, True)]:
        def build_vm(B, t=(hc1, he1, hc2, he2)):
            n = B.node(("*", ("term", t[0], t[1], "x", "e1"), ("term", t[2], t[3], "x", "e2")), name="node")
            return n, n

        def shape_vm(B, node, result, valid, t=(hc1, he1, hc2, he2)):
            # the product consists of exactly one power x^(e1 + e2) and the coefficients
            flat = flat_nodes(result, K["*"])
            pws = [f for f in flat if is_kind(f, "^")]
            coefs = [f for f in flat if not is_kind(f, "^")]
            if len(pws) != 1:
                return False, f"factors {flat}"
            pw = pws[0]
            if not is_kind(cur(pw, "left"), "VariableExpression") or not is_kind(cur(pw, "right"), "+"):
                return False, f"power term {pw}"
            s = cur(pw, "right")
            e1, e2 = cur(s, "left"), cur(s, "right")
            if not (is_kind(e1, "ConstantExpression") and is_kind(e2, "ConstantExpression")):
                return False, "exponent sum operands"
            x = B.named[("ident", "x")].ghost["ident"]
            w1 = B.named[("const", ("exp", "e1"))].ghost["cval"] if t[1] else z3.RealVal(1)
            w2 = B.named[("const", ("exp", "e2"))].ghost["cval"] if t[3] else z3.RealVal(1)
            ok = valid(z3.And(_ident(cur(pw, "left")) == x, const_value(e1) == w1, const_value(e2) == w2))
            ncoef = int(t[0]) + int(t[2])
            ok = ok and len(coefs) == ncoef and all(is_kind(c, "ConstantExpression") for c in coefs)
            return ok, f"exponents {e1},{e2} coefficients {coefs}"

        nm = ("c" if hc1 else "") + "x" + ("^a" if he1 else "") + " * " + ("d" if hc2 else "") + "x" + ("^b" if he2 else "")
        out.append(Case(f"variable_multiply/{nm}", "variable_multiply", build_vm, True, shape_vm))
    out.append(Case("variable_multiply/not for unlike variables", "variable_multiply",
                    (lambda B: (lambda n: (n, n))(B.node(("*", ("term", True, True, "x", "e1"), ("term", True, True, "y", "e2")), name="node"))), False,
                    assume=lambda B, ps: ps.assume(B.named[("ident", "x")].ghost["ident"] != B.named[("ident", "y")].ghost["ident"])))

    # ---- factor out: a x^n + b x^n -> (a' + b') * k x^n
    for hc1, hc2, he in [(a, b, c) for a in (False, True) for b in (False, True) for c in (False, True)]:
        def build_df(B, t=(hc1, hc2, he)):
            n = B.node(("+", ("term", t[0], t[2], "x", "n"), ("term", t[1], t[2], "x", "n")), name="node")
            return n, n

        def assume_df(B, ps):
            return None  # every coefficient, zero included

        def shape_df(B, node, result, valid, t=(hc1, hc2, he)):
            if not is_kind(result, "*"):
                return False, f"result {result}"
            l, r = cur(result, "left"), cur(result, "right")
            s, common = (l, r) if is_kind(l, "+") else (r, l)
            if not is_kind(s, "+") or not is_kind(cur(s, "left"), "ConstantExpression") or not is_kind(cur(s, "right"), "ConstantExpression"):
                return False, f"no (a + b) factor: {l}, {r}"
            ct = term_of(common)
            if ct is None or ct[1] is None:
                return False, f"common factor {common}"
            k = ct[0] if ct[0] is not None else z3.RealVal(1)
            x = B.named[("ident", "x")].ghost["ident"]
            a = [o for o in B.heap.nodes if o.label == "c"]
            terms = [cur(node, "left"), cur(node, "right")]
            cs = []
            for tm in (node.init["left"], node.init["right"]):
                tt = term_of(tm)
                cs.append(tt[0] if tt[0] is not None else z3.RealVal(1))
            goal = z3.And(ct[1] == x, k * const_value(cur(s, "left")) == cs[0], k * const_value(cur(s, "right")) == cs[1])
            if t[2]:
                goal = z3.And(goal, ct[2] == B.named[("const", ("exp", "n"))].ghost["cval"]) if ct[2] is not None else z3.BoolVal(False)
            elif ct[2] is not None:
                goal = z3.BoolVal(False)
            return valid(goal), f"common {ct}"

        nm = ("a" if hc1 else "") + "x" + ("^n" if he else "") + " + " + ("b" if hc2 else "") + "x" + ("^n" if he else "")
        out.append(Case(f"distributive_factor_out/{nm}", "distributive_factor_out", build_df, True, shape_df, assume_df))
    # like terms where only ONE side writes its exponent (x + b x^e, a x^e + x): optional forms
    for side in ("left", "right"):
        for hc in (False, True):
            def build_mixed(B, side=side, hc=hc):
                plain = ("term", False, False, "x", "n")
                powered = ("term", hc, True, "x", "n")
                n = B.node(("+", plain, powered) if side == "left" else ("+", powered, plain), name="node")
                return n, n

            def shape_mixed(B, node, result, valid):
                if not is_kind(result, "*"):
                    return False, f"result {result}"
                l, r = cur(result, "left"), cur(result, "right")
                s_, common = (l, r) if is_kind(l, "+") else (r, l)
                if not is_kind(s_, "+"):
                    return False, f"no sum factor: {l}, {r}"
                ct = term_of(common)
                if ct is None or ct[1] is None:
                    return False, f"common factor {common} is not a term in x"
                # every variable node of the result carries an identifier
                def bad_var(o, depth=0):
                    if not isinstance(o, Obj) or depth > 6:
                        return False
                    if is_kind(o, "VariableExpression") and not (o.lazy or o.mirror is not None) and not isinstance(o.cur.get("identifier"), (IdStr, str)):
                        return True
                    return bad_var(cur(o, "left"), depth + 1) or bad_var(cur(o, "right"), depth + 1)

                if bad_var(result):
                    return False, "a variable node without an identifier"
                return True, ""

            out.append(Case(f"distributive_factor_out/optional: {'x + ' if side == 'left' else ''}{'b' if hc else ''}x^e{' + x' if side == 'right' else ''}", "distributive_factor_out", build_mixed, "optional", shape_mixed))

    def assume_unlike(B, ps):
        ps.assume(B.named[("ident", "x")].ghost["ident"] != B.named[("ident", "y")].ghost["ident"])
        # with whole-number coefficients there is no common numeric factor below 1 to pull out
        for o in list(B.heap.nodes):
            if o.kinds == frozenset(["ConstantExpression"]):
                ps.assume(z3.And(z3.Not(o.ghost["cfloat"]), z3.IsInt(o.ghost["cval"])))

    out.append(Case("distributive_factor_out/not for unlike variables", "distributive_factor_out",
                    (lambda B: (lambda n: (n, n))(B.node(("+", ("term", True, False, "x", "n"), ("term", True, False, "y", "n")), name="node"))), False,
                    assume=assume_unlike))
    out.append(Case("distributive_factor_out/not for two constants unless enabled", "distributive_factor_out",
                    (lambda B: (lambda n: (n, n))(B.node(("+", ("const", "c1"), ("const", "c2")), name="node"))), False))

    # ---- balanced move across '='
    for side in ("left", "right"):
        def build_bm(B, side=side):
            eq = B.node(("=", ("+", "t", "rest"), "other") if side == "left" else ("=", "other", ("+", "rest", "t")), name="eq")
            B.heap.root = eq
            eq.init["parent"] = eq.cur["parent"] = None
            add = cur(eq, side)
            n = cur(add, "left") if side == "left" else cur(add, "right")
            B.I.refine_kinds(n, ["ConstantExpression"])
            B.named["node"] = n
            return n, eq

        def shape_bm(B, node, result, valid, side=side):
            eq, rest, other = B.named["eq"], B.named["rest"], B.named["other"]
            if not is_kind(result, "=") or orig(result) is not eq or result is eq:
                return False, f"result {result}"
            kept = cur(result, side)
            moved = cur(result, "right" if side == "left" else "left")
            ok = orig(kept) is rest and is_kind(moved, "-") and orig(cur(moved, "left")) is other and orig(cur(moved, "right")) is node
            return ok, f"kept {kept}, moved {moved}"

        out.append(Case(f"balanced_move/addend on the {side}", "balanced_move", build_bm, True, shape_bm))

    # nested chains: the moved addend sits one addition deeper, on either side of it
    for side in ("left", "right"):
        for inner in ("left", "right"):
            def build_bmn(B, side=side, inner=inner):
                chain = ("+", ("+", "p", "t"), "q") if inner == "left" else ("+", "q", ("+", "t", "p"))
                eq = B.node(("=", chain, "other") if side == "left" else ("=", "other", chain), name="eq")
                B.heap.root = eq
                eq.init["parent"] = eq.cur["parent"] = None
                outer = cur(eq, side)
                inn = cur(outer, inner)
                n = cur(inn, "right") if inner == "left" else cur(inn, "left")
                B.I.refine_kinds(n, ["VariableExpression"])
                B.named["node"] = n
                return n, eq

            def shape_bmn(B, node, result, valid, side=side, inner=inner):
                eq, p, q, other = B.named["eq"], B.named["p"], B.named["q"], B.named["other"]
                if not is_kind(result, "=") or orig(result) is not eq or result is eq:
                    return False, f"result {result}"
                kept = cur(result, side)
                moved = cur(result, "right" if side == "left" else "left")
                ok = is_kind(kept, "+") and {id(orig(cur(kept, "left"))), id(orig(cur(kept, "right")))} == {id(p), id(q)}
                ok = ok and is_kind(moved, "-") and orig(cur(moved, "left")) is other and orig(cur(moved, "right")) is node
                return ok, f"kept {kept}, moved {moved}"

            out.append(Case(f"balanced_move/addend nested in a {inner}-leaning chain on the {side}", "balanced_move", build_bmn, True, shape_bmn))

    def build_bmc(B):
        eq = B.node(("=", ("*", ("const", "k"), "u"), "other"), name="eq")
        B.heap.root = eq
        eq.init["parent"] = eq.cur["parent"] = None
        n = cur(cur(eq, "left"), "left")
        B.named["node"] = n
        B.named["lhs"] = cur(eq, "left")
        return n, eq

    def assume_bmc(B, ps):
        ps.assume(B.named[("const", "k")].ghost["cval"] != 0)
        # documented restriction: no additions left on that side of the equation
        u = B.named["u"]
        for w in ("AddExpression",):
            ps.assume(z3.Not(z3.Bool(f"below_has_{w}_{u.oid}")))
        B.I.refine_kinds(u, u.kinds - frozenset(["AddExpression"]))

    def shape_bmc(B, node, result, valid):
        eq = B.named["eq"]
        if not is_kind(result, "=") or orig(result) is not eq:
            return False, f"result {result}"
        l, r = cur(result, "left"), cur(result, "right")
        ok = is_kind(l, "/") and is_kind(r, "/") and orig(cur(l, "left")) is B.named["lhs"] and orig(cur(r, "left")) is B.named["other"] and orig(cur(l, "right")) is node and orig(cur(r, "right")) is node
        return ok, f"{l} = {r}"

    out.append(Case("balanced_move/coefficient divided on both sides", "balanced_move", build_bmc, True, shape_bmc, assume_bmc))
    return out


_I = None


def _init():
    global _I
    _I = make_interp(REPO)


def _work(idx):
    case = cases()[idx]
    res = []
    try:
        for o in explore(lambda ps: run_case(_I, ps, case)):
            res.append((o.result, str(o.error) if o.error is not None else None))
    except OutOfSubset as e:
        res.append((None, str(e)))
    except Exception as e:  # noqa: BLE001
        import traceback

        res.append((None, f"engine-error: {e!r} {traceback.format_exc()[-300:]}"))
    return case.name, res


def run(tier: str, seed: int) -> int:
    import multiprocessing as mp

    R = Result("C08", tier, seed)
    known = load_known()
    cs = cases()
    n_obl = n_ok = 0
    per: Dict[str, int] = {}
    samples = []
    with mp.get_context("fork").Pool(16, initializer=_init) as pool:
        for name, res in pool.imap_unordered(_work, range(len(cs))):
            for result, err in res:
                if err is not None:
                    (R.engine_errors if err.startswith("engine-error") else R.undecided).append(f"{name}: {err}")
                    continue
                for ob in result["obligations"]:
                    n_obl += 1
                    per[name] = per.get(name, 0) + 1
                    if ob["ok"]:
                        n_ok += 1
                        if len(samples) < 4 and "documented-shape" in ob["clause"]:
                            samples.append({"obligation": f"C08/{ob['clause']}", "path": result["labels"][-5:], "status": "proved"})
                    else:
                        k = match_known(known, "C08", {"cfg": name, "clause": ob["clause"], "shape": {}, "cases": [], "detail": ob["detail"]})
                        if k is not None:
                            R.known(k)
                        else:
                            R.violation(f"obligation C08/{ob['clause']} failed on path {result['labels'][-8:]}: {ob['detail'][:240]}", {"obligation": ob, "path": result["labels"]}, False)
    for c in cs:
        if per.get(c.name, 0) == 0 and not any(u.startswith(c.name) for u in R.undecided + R.engine_errors):
            R.engine_errors.append(f"vacuous: no obligation for schema {c.name}")
    p = run_venv("forms_tierb.py", [tier], timeout=7200)
    bounded = {}
    if p.returncode not in (0, 1):
        R.engine_errors.append("tier-B failed: " + p.stderr[-300:])
    else:
        bounded = tierb_json(p, R)
        for f in bounded.get("failures", [])[:8]:
            k = match_known(known, "C08", {"cfg": f.get("cfg", ""), "clause": f["clause"], "shape": {}, "cases": [], "detail": f["detail"]})
            if k is not None:
                R.known(k)
                continue
            R.violation(f"bounded check on real code: {f['clause']}: {f['detail'][:300]}", {"failure": f}, True)
    R.level = "proof" if not R.undecided and n_ok == n_obl and not R.known_hits else "other"
    R.coverage = {
        "obligations": n_obl,
        "discharged": n_ok,
        "checker_cmd": f"/verif/bin/check C08 --tier {tier}",
        "trusted_base": ["pyvc symbolic executor and the callee contracts of the rule family (see C01)", "the schema list below is this check's reading of the rule documentation (*.md) and rule examples (*.test.json)",
                         "restate-subtraction is only claimed in the contexts the documentation shows (root, under +, under =)"],
        "schemas": [c.name for c in cs],
        "obligations_per_schema": per,
        "functions_under_contract": ["can_apply_to / apply_to of the nine rules on the documented forms"],
        "samples": samples,
        "explanation": "acceptance and shape obligations on symbolic instances of the documented schemas embedded in an unread (arbitrary) context",
        "bounded": {k: v for k, v in bounded.items() if k != "failures"},
    }
    R.assumptions = ["the schema list is this check's reading of the rule documentation"]
    return R.finish()
