"""C03 and C10 (parser part): the real `_parse` executed symbolically on every token-type sequence
up to a length bound (symbolic leaf values), compared with the reference grammar; the tokenizer
part of C10 and the sticky-state analysis."""
from __future__ import annotations

import ast
import fcntl
import json
import os
from typing import Any, Dict, List

from .common import REPO, VERIF, Result, load_known, match_known, repo_digest, run_venv, verif_digest

PARSER_EXCEPTIONS = ("ParserException", "InvalidExpression", "OutOfTokens", "InvalidSyntax", "UnexpectedBehavior", "TrailingTokens")


def enumeration(tier: str) -> Dict[str, Any]:
    n = 5 if tier == "quick" else 6
    key = f"parse_{repo_digest()}_{verif_digest()}_{n}"
    cdir = os.path.join(VERIF, "out", "cache")
    os.makedirs(cdir, exist_ok=True)
    path = os.path.join(cdir, key + ".json")
    lock = open(os.path.join(cdir, key + ".lock"), "w")
    fcntl.flock(lock, fcntl.LOCK_EX)
    try:
        if os.path.exists(path) and os.environ.get("PYVC_NOCACHE") != "1":
            with open(path) as f:
                d = json.load(f)
            d["from_cache"] = True
            return d
        from pyvc.parsedriver import run_all

        d = run_all(REPO, n)
        d["from_cache"] = False
        with open(path, "w") as f:
            json.dump(d, f, default=str)
        for fn in os.listdir(cdir):
            if fn.startswith("parse_") and not fn.startswith(key) and fn.endswith(".json"):
                try:
                    os.unlink(os.path.join(cdir, fn))
                except OSError:
                    pass
        return d
    finally:
        fcntl.flock(lock, fcntl.LOCK_UN)
        lock.close()


def sticky_state_analysis(repo) -> List[Dict[str, Any]]:
    """Definite assignment: every attribute of the parser object that the parse_* methods read is
    (re)assigned by _parse before it calls anything, so a parse never depends on a previous one."""
    src = open(os.path.join(repo, "mathy_core", "parser.py")).read()
    tree = ast.parse(src)
    out = []
    cls = next((n for n in tree.body if isinstance(n, ast.ClassDef) and n.name == "ExpressionParser"), None)
    if cls is None:
        return [{"clause": "sticky-state/analysis", "ok": False, "detail": "class ExpressionParser not found"}]
    methods = {n.name: n for n in cls.body if isinstance(n, ast.FunctionDef)}
    parse_time = [m for name, m in methods.items() if name not in ("__init__", "clear_cache", "tokenize", "parse")]
    read, written_elsewhere = set(), {}
    for m in parse_time:
        for n in ast.walk(m):
            if isinstance(n, ast.Attribute) and isinstance(n.value, ast.Name) and n.value.id == "self":
                if isinstance(n.ctx, ast.Load) and n.attr not in methods:
                    read.add(n.attr)
                elif isinstance(n.ctx, ast.Store) and m.name != "_parse":
                    written_elsewhere.setdefault(n.attr, []).append(m.name)
    persistent_ok = {"tokenizer"}  # configuration, never written after __init__
    p = methods.get("_parse")
    assigned_first = set()
    if p is not None:
        for st in p.body:
            if isinstance(st, ast.Expr) and isinstance(st.value, ast.Constant):
                continue
            calls_self = any(isinstance(n, ast.Call) and isinstance(n.func, ast.Attribute) and isinstance(n.func.value, ast.Name) and n.func.value.id == "self" for n in ast.walk(st))
            if isinstance(st, ast.Assign) and not calls_self:
                for t in st.targets:
                    if isinstance(t, ast.Attribute) and isinstance(t.value, ast.Name) and t.value.id == "self":
                        assigned_first.add(t.attr)
                continue
            break
    for a in sorted(read):
        ok = a in assigned_first or a in persistent_ok
        out.append({"clause": f"sticky-state/self.{a}-assigned-before-use-in-_parse", "ok": ok, "detail": "" if ok else f"self.{a} is read while parsing but not reset at the start of _parse"})
    # the tokenizer configuration is never written outside __init__
    for m in methods.values():
        if m.name == "__init__":
            continue
        for n in ast.walk(m):
            if isinstance(n, ast.Attribute) and isinstance(n.ctx, ast.Store) and isinstance(n.value, ast.Name) and n.value.id == "self" and n.attr in persistent_ok:
                out.append({"clause": "sticky-state/tokenizer-not-rebound", "ok": False, "detail": f"{m.name} assigns self.{n.attr}"})
    # self.tokens is consumed only by next()
    for m in methods.values():
        for n in ast.walk(m):
            if isinstance(n, ast.Call) and isinstance(n.func, ast.Attribute) and n.func.attr in ("pop", "append", "insert", "remove", "clear", "extend"):
                tgt = n.func.value
                if isinstance(tgt, ast.Attribute) and isinstance(tgt.value, ast.Name) and tgt.value.id == "self" and tgt.attr == "tokens" and m.name != "next":
                    out.append({"clause": "sticky-state/tokens-consumed-only-by-next", "ok": False, "detail": f"{m.name} mutates self.tokens"})
    out.append({"clause": "sticky-state/tokens-consumed-only-by-next", "ok": not any(o["clause"].endswith("only-by-next") and not o["ok"] for o in out), "detail": ""})
    return out


def run(prop: str, tier: str, seed: int) -> int:
    R = Result(prop, tier, seed)
    known = load_known()
    d = enumeration(tier)
    n_obl = d["sequences"]
    n_bad = 0
    samples = []
    viol = 0
    for a in d["attention"]:
        if "error" in a:
            R.undecided.append(f"{' '.join(a['seq'])}: {a['error']}")
            n_bad += 1
            continue
        seq = " ".join(a["seq"])
        for v in a["verdicts"]:
            if prop == "C03":
                if v.get("agree"):
                    continue
                n_bad += 1
                if v["kind"] == "tree" and a["spec_accepts"]:
                    what = f"token sequence [{seq}] is read as {v.get('real_tree')} but the documented grammar prescribes {v.get('spec_tree')} (value check: {v.get('value_check')})"
                    clause = "value-as-grammar-prescribes"
                elif v["kind"] == "tree":
                    what = f"token sequence [{seq}] is accepted ({v.get('real_tree')}) although the documented grammar does not derive it"
                    clause = "accepts-exactly-the-grammar"
                else:
                    what = f"token sequence [{seq}] is rejected ({v.get('exc')}) although the documented grammar derives it"
                    clause = "accepts-exactly-the-grammar"
                f = {"cfg": "parser", "clause": clause, "shape": {}, "cases": [], "detail": ("right-fold-variant " if v.get("is_right_fold_variant") else "") + what}
                k = match_known(known, "C03", f)
                if k is not None:
                    R.known(k)
                    continue
                viol += 1
                R.violation(what, {"failure": f, "sequence": a["seq"], "example_text": example_text(a["seq"])}, True)
            else:  # C10
                bad = None
                if v["kind"] == "raise":
                    if v.get("implicit") or v["exc"] not in PARSER_EXCEPTIONS:
                        bad = f"token sequence [{seq}] makes the parser raise {v['exc']} at {v.get('site')} (not a documented parse exception)"
                elif v.get("structure_problems"):
                    bad = f"token sequence [{seq}] returns a malformed tree: {v['structure_problems'][:2]}"
                if bad:
                    n_bad += 1
                    viol += 1
                    R.violation(bad, {"sequence": a["seq"], "example_text": example_text(a["seq"])}, True)
    # coerce_to_number against the contract the enumeration relies on
    try:
        from pyvc.parsesym import make_interp as _mk, prove_coerce

        for ob in prove_coerce(_mk(REPO)):
            n_obl += 1
            if ob.get("undecided"):
                R.undecided.append(f"{ob['clause']}: {ob['detail']}")
                n_bad += 1
            elif not ob["ok"]:
                n_bad += 1
                R.violation(f"obligation {prop}/{ob['clause']} failed: {ob['detail'][:200]}", {"obligation": ob}, False)
    except Exception as e:  # noqa: BLE001
        R.engine_errors.append(f"coerce_to_number proof crashed: {e!r}")
    extra: Dict[str, Any] = {}
    if prop == "C10":
        from .c10_deductive import run_all as c10_deductive

        dd = c10_deductive(REPO)
        for e in dd["errors"]:
            (R.engine_errors if e.startswith("engine-error") else R.undecided).append(e)
        extra_ded = {"obligations": len(dd["obligations"]), "discharged": sum(1 for o in dd["obligations"] if o["ok"])}
        for ob in dd["obligations"]:
            n_obl += 1
            if not ob["ok"]:
                n_bad += 1
                R.violation(f"obligation C10/{ob['clause']} failed: {ob['detail'][:240]}", {"obligation": ob}, False)
        for ob in sticky_state_analysis(REPO):
            n_obl += 1
            if not ob["ok"]:
                n_bad += 1
                R.violation(f"obligation C10/{ob['clause']} failed: {ob['detail']}", {"obligation": ob}, False)
        p = run_venv("parse_tierb.py", ["c10", tier], timeout=3000)
        if p.returncode not in (0, 1):
            R.engine_errors.append("tier-B failed: " + p.stderr[-300:])
        else:
            extra = json.loads(p.stdout)
            for f in extra.get("failures", [])[:6]:
                n_bad += 1
                R.violation(f"bounded check on real code: {f['clause']}: {f['detail'][:300]}", {"failure": f}, True)
    else:
        p = run_venv("parse_tierb.py", ["c03", tier], timeout=3000)
        if p.returncode not in (0, 1):
            R.engine_errors.append("tier-B failed: " + p.stderr[-300:])
        else:
            extra = json.loads(p.stdout)
            for f in extra.get("failures", [])[:6]:
                k = match_known(known, "C03", {"cfg": "parser", "clause": f["clause"], "shape": {}, "cases": [], "detail": f["detail"]})
                if k is not None:
                    R.known(k)
                    continue
                n_bad += 1
                R.violation(f"bounded check on real code: {f['clause']}: {f['detail'][:300]}", {"failure": f}, True)
    if d["sequences"] == 0 or d["spec_accepts"] == 0:
        R.engine_errors.append("vacuous enumeration")
    R.level = "other"
    from . import engine_diff

    diff_summary = engine_diff.report(R, engine_diff.parse_diff(), "parser and tokenizer on concrete strings")
    R.coverage = {
        "engine_differential": diff_summary,
        "explanation": f"PROOF-FINITE: for each of the {d['sequences']} token-type sequences of length <= {d['max_len']} the real _parse is executed symbolically with symbolic constants and variable names "
        "(its control flow depends on token types only), so each run covers every string with that token-type sequence; compared with the reference grammar written from the property. "
        "Bounded in the number of tokens, unbounded in the values.",
        "obligations": n_obl,
        "discharged": n_obl - n_bad,
        "checker_cmd": f"/verif/bin/check {prop} --tier {tier}",
        "trusted_base": ["pyvc symbolic executor", "reference grammar /verif/contracts/grammar.py (validated against the documented grammar)", "coerce_to_number contract: a digit/dot run denotes a non-negative number or raises ValueError",
                         "tokenizer maps text to token types as proved/checked in C11"],
        "exhaustive": True,
        "max_tokens": d["max_len"],
        "sequences": d["sequences"],
        "accepted_by_grammar": d["spec_accepts"],
        "parser_outcomes": d["outcomes"],
        "enumeration_seconds": round(d.get("seconds", 0), 1),
        "from_cache": d.get("from_cache"),
        "samples": [{"sequence": ["Constant", "Variable", "Exponent", "Constant"], "text": "4x^2", "result": "Multiply(c0, Power(v1, c3)) = grammar tree"}],
        "bounded": {k: v for k, v in extra.items() if k != "failures"},
        "unbounded_part": (
            "C10 only: explicit raises are documented exceptions (scan); next/eat under the stream invariant; parse_factors and parse_mult list safety by loop invariants; recursion only after a nesting token; "
            "parse_function lookup; progress (every loop iteration / non-descending call consumes a token) - for token lists of ANY length"
            if prop == "C10" else "none (see C10/C11 for totality)"
        ),
    }
    R.assumptions = ["token-count bound stated above for the enumeration; the unbounded clauses of C10 rest on the stream invariant, the loop invariants of parse_factors and parse_mult and a static progress / stack-depth analysis; Python recursion limit not modelled (nesting depth of the input and exponent-tower height must stay below it)"]
    return R.finish()


TEXT = {"Constant": "2", "Variable": "x", "Plus": "+", "Minus": "-", "Multiply": "*", "Divide": "/", "Exponent": "^", "Factorial": "!", "OpenParen": "(", "CloseParen": ")", "Function": "sgn", "Equal": "="}


def example_text(seq) -> str:
    out = []
    nconst = 2
    names = iter("xyzabcdefgh")
    for t in seq:
        if t == "Constant":
            out.append(str(nconst))
            nconst += 1
        elif t == "Variable":
            out.append(next(names))
        else:
            out.append(TEXT[t])
    return " ".join(out)
