"""C18: tidy-tree layout.

Deductive part (all trees, no bound): `TreeLayout.transform` by structural induction - absolute x of a
child is x -/+ offset (hence a parent of two children is centred), y is scaled by the unit, and the
returned measurement is the running bounding box; `measure` assigns y = level (syntactic frame check:
the only write to .y, before the recursive calls with level + 1).
The clauses that depend on the contour walk with threads (strict left/right placement, separation in
level order, mirror symmetry) are outside what a contract within reach decides: bounded stand-in over
all shapes up to N nodes, with the currently failing (shape, clause) pairs listed as a known finding.
"""
from __future__ import annotations

import ast
import gzip
import json
import os
from typing import Any, Dict, List

import z3

from pyvc.explore import explore, prove
from pyvc.interp import Interp, PathState
from pyvc.values import Num, Obj, OutOfSubset, PyRaise, zreal

from .common import REPO, VERIF, Result, run_venv


def _valid(ps, goal):
    return prove(ps.pc, [], goal, timeout_ms=10000).status == "proved"


def transform_path(I: Interp, ps: PathState) -> Dict[str, Any]:
    I.ps = ps
    I.call_depth = 0
    obl: List[Dict[str, Any]] = []

    def ob(clause, ok, detail=""):
        obl.append({"clause": f"TreeLayout.transform/{clause}", "ok": bool(ok), "detail": detail if not ok else ""})

    layout = I.new_obj(["TreeLayout"], label="layout")
    node = I.new_obj(["BinaryTreeNode"], label="node")
    x, ux, uy = (Num(z3.Real(n)) for n in ("x", "ux", "uy"))
    y0, off = z3.Real("y0"), z3.Real("offset")
    node.cur.update({"y": Num(y0), "offset": Num(off), "x": None})
    kids = {}
    for side in ("left", "right"):
        if ps.choose(2, f"{side}-present") == 0:
            c = I.new_obj(["BinaryTreeNode"], label=side)
            kids[side] = c
            node.cur[side] = c
        else:
            node.cur[side] = None
    first = ps.choose(2, "measure-given") == 1
    m0 = {k: z3.Real(f"m_{k}") for k in ("minX", "maxX", "minY", "maxY")}
    if first:
        meas = I.new_obj(["TreeMeasurement"], label="measure")
        for k, v in m0.items():
            meas.cur[k] = Num(v)
        for k in ("width", "height", "centerX", "centerY"):
            meas.cur[k] = Num(z3.Real(f"m_{k}"))
        ps.assume(z3.And(m0["minX"] <= m0["maxX"], m0["minY"] <= m0["maxY"]))
    else:
        meas = None
    calls = []
    boxes = {}

    def contract(I2, args, kw, fv):
        me, nd = args[0], args[1] if len(args) > 1 else kw.get("node")
        if nd is None:
            # leaf call on an absent child: returns the measurement untouched
            return args[5] if len(args) > 5 else kw.get("measure")
        if nd is node:
            return I2.call_function(fv, args, kw, use_contract=False)
        cx = args[2]
        m = args[5] if len(args) > 5 else kw.get("measure")
        calls.append((nd, cx, args[3], args[4], m))
        # induction hypothesis: the subtree's coordinates were assigned and its bounding box merged
        b = {k: ps.fresh(f"box_{nd.label}_{k}", "Real") for k in ("minX", "maxX", "minY", "maxY")}
        ps.assume(z3.And(b["minX"] <= b["maxX"], b["minY"] <= b["maxY"]))
        boxes[nd.label] = b
        if isinstance(m, Obj):
            def mn(a, c):
                return z3.If(a < c, a, c)

            def mx(a, c):
                return z3.If(a > c, a, c)

            m.cur["minX"] = Num(mn(zreal(m.cur["minX"]), b["minX"]))
            m.cur["maxX"] = Num(mx(zreal(m.cur["maxX"]), b["maxX"]))
            m.cur["minY"] = Num(mn(zreal(m.cur["minY"]), b["minY"]))
            m.cur["maxY"] = Num(mx(zreal(m.cur["maxY"]), b["maxY"]))
        return m

    saved = dict(I.contracts)
    I.contracts["TreeLayout.transform"] = contract
    try:
        f = I.get_func("mathy_core.layout", "TreeLayout.transform")
        try:
            ret = I.call_function(f, [layout, node, x, ux, uy] + ([meas] if first else []), {}, use_contract=False)
        except PyRaise as pr:
            ob("no-raise", False, f"raised {pr.exc.clsname} at {pr.site}")
            return {"obligations": obl, "labels": list(ps.labels)}
    finally:
        I.contracts = saved
    nx, ny = node.cur.get("x"), node.cur.get("y")
    ob("x-is-relative-position-times-unit", isinstance(nx, Num) and _valid(ps, zreal(nx) == x.v * ux.v), repr(nx))
    ob("y-is-scaled-by-the-unit", isinstance(ny, Num) and _valid(ps, zreal(ny) == y0 * uy.v), repr(ny))
    want = [(kids[s], x.v - off if s == "left" else x.v + off) for s in ("left", "right") if s in kids]
    ok = len(calls) == len(want)
    for (nd, cx, cux, cuy, m), (wnd, wx) in zip(calls, want):
        ok = ok and nd is wnd and _valid(ps, zreal(cx) == wx) and cux is ux and cuy is uy and m is ret
    ob("children-placed-at-x-minus/plus-offset-left-then-right", ok, f"{[(str(c[0]), str(c[1])) for c in calls]}")
    if not isinstance(ret, Obj) or ret.clsname != "TreeMeasurement":
        ob("returns-the-measurement", False, repr(ret))
        return {"obligations": obl, "labels": list(ps.labels)}
    ob("returns-the-given-measurement-object", (not first) or ret is meas, repr(ret))
    # running bounding box: before (given values or the constructor's sentinels), this node, children's boxes
    if first:
        base = m0
    else:
        base = {"minX": z3.RealVal(10000), "maxX": z3.RealVal(0), "minY": z3.RealVal(10000), "maxY": z3.RealVal(0)}
    xs = [zreal(nx)] + [boxes[k.label][a] for k in kids.values() for a in ("minX", "maxX") if k.label in boxes]
    ys = [zreal(ny)] + [boxes[k.label][a] for k in kids.values() for a in ("minY", "maxY") if k.label in boxes]

    def lo(vals, start):
        r = start
        for v in vals:
            r = z3.If(v < r, v, r)
        return r

    def hi(vals, start):
        r = start
        for v in vals:
            r = z3.If(v > r, v, r)
        return r

    g = z3.And(
        zreal(ret.cur["minX"]) == lo(xs, base["minX"]), zreal(ret.cur["maxX"]) == hi(xs, base["maxX"]),
        zreal(ret.cur["minY"]) == lo(ys, base["minY"]), zreal(ret.cur["maxY"]) == hi(ys, base["maxY"]),
    )
    ob("measurement-is-the-running-bounding-box", _valid(ps, g), "min/max not merged correctly")
    w, h = zreal(ret.cur["width"]), zreal(ret.cur["height"])
    g2 = z3.And(w == zreal(ret.cur["maxX"]) - zreal(ret.cur["minX"]), h == zreal(ret.cur["maxY"]) - zreal(ret.cur["minY"]),
                zreal(ret.cur["centerX"]) == zreal(ret.cur["minX"]) + w / 2, zreal(ret.cur["centerY"]) == zreal(ret.cur["minY"]) + h / 2)
    ob("width-height-centre-derived-from-the-box", _valid(ps, g2), "derived fields inconsistent")
    return {"obligations": obl, "labels": list(ps.labels)}


def measure_y_frame(repo) -> List[Dict[str, Any]]:
    """`measure` assigns node.y = level and recurses with level + 1; nothing else writes .y."""
    src = open(os.path.join(repo, "mathy_core", "layout.py")).read()
    tree = ast.parse(src)
    out = []
    cls = next((n for n in tree.body if isinstance(n, ast.ClassDef) and n.name == "TreeLayout"), None)
    m = next((n for n in cls.body if isinstance(n, ast.FunctionDef) and n.name == "measure"), None) if cls else None
    if m is None:
        return [{"clause": "TreeLayout.measure/found", "ok": False, "detail": "measure not found"}]
    ywrites = [n for n in ast.walk(m) if isinstance(n, (ast.Assign, ast.AugAssign)) and any(isinstance(t, ast.Attribute) and t.attr == "y" for t in (n.targets if isinstance(n, ast.Assign) else [n.target]))]
    ok = len(ywrites) == 1 and isinstance(ywrites[0], ast.Assign) and isinstance(ywrites[0].value, ast.Name) and ywrites[0].value.id == "level" \
        and isinstance(ywrites[0].targets[0].value, ast.Name) and ywrites[0].targets[0].value.id == "node"
    out.append({"clause": "TreeLayout.measure/y-assigned-once-as-level", "ok": ok, "detail": "" if ok else f"{len(ywrites)} writes to .y"})
    rec = [n for n in ast.walk(m) if isinstance(n, ast.Call) and isinstance(n.func, ast.Attribute) and n.func.attr == "measure"]
    ok2 = len(rec) == 2 and all(len(c.args) >= 2 and isinstance(c.args[1], ast.BinOp) and isinstance(c.args[1].op, ast.Add) and isinstance(c.args[1].left, ast.Name)
                                and c.args[1].left.id == "level" and isinstance(c.args[1].right, ast.Constant) and c.args[1].right.value == 1 for c in rec)
    names = [getattr(c.args[0], "id", None) for c in rec]
    out.append({"clause": "TreeLayout.measure/recurses-on-both-children-with-level+1", "ok": ok2 and names == ["left", "right"], "detail": "" if ok2 else "recursive calls differ"})
    lay = next((n for n in cls.body if isinstance(n, ast.FunctionDef) and n.name == "layout"), None)
    # layout(): measure from level 0 (default) and transform from x = 0
    tcalls = [n for n in ast.walk(lay) if isinstance(n, ast.Call) and isinstance(n.func, ast.Attribute) and n.func.attr == "transform"] if lay else []
    ok3 = len(tcalls) == 1 and len(tcalls[0].args) >= 2 and isinstance(tcalls[0].args[1], ast.Constant) and tcalls[0].args[1].value == 0
    out.append({"clause": "TreeLayout.layout/root-at-x-0", "ok": ok3, "detail": "" if ok3 else "transform not started at 0"})
    return out


def reset_frame(repo) -> List[Dict[str, Any]]:
    """Repeatability rests on `layout` forgetting the scratch state of earlier layouts of the same nodes:
    (1) layout() resets before it measures; (2) _reset leaves only for a missing node, and otherwise -
    unconditionally - drops every scratch attribute and recurses into BOTH children (structural
    induction: after _reset(n) no node below n carries scratch state); (3) the scratch attributes that
    `measure` stores on nodes are all among the ones dropped.  Structural scan of the current source."""
    src = open(os.path.join(repo, "mathy_core", "layout.py")).read()
    tree = ast.parse(src)
    out = []
    cls = next((n for n in tree.body if isinstance(n, ast.ClassDef) and n.name == "TreeLayout"), None)
    meth = {n.name: n for n in cls.body if isinstance(n, ast.FunctionDef)} if cls else {}

    def body_of(fn):
        return [st for st in fn.body if not (isinstance(st, ast.Expr) and isinstance(st.value, ast.Constant))]

    def self_call(st, name):
        v = st.value if isinstance(st, ast.Expr) else None
        return isinstance(v, ast.Call) and isinstance(v.func, ast.Attribute) and isinstance(v.func.value, ast.Name) and v.func.value.id == "self" and v.func.attr == name

    lay, rst, mea = meth.get("layout"), meth.get("_reset"), meth.get("measure")
    if lay is None or mea is None:
        return [{"clause": "TreeLayout/reset/found", "ok": False, "detail": "layout / measure not found"}]
    if rst is None:
        return [{"clause": "TreeLayout.layout/forgets-earlier-scratch-state", "ok": False, "detail": "no _reset: threads and offsets of an earlier layout are followed again"}]
    lb = body_of(lay)
    i_r = next((i for i, st in enumerate(lb) if self_call(st, "_reset")), None)
    i_m = next((i for i, st in enumerate(lb) if self_call(st, "measure")), None)
    ok = i_r is not None and i_m is not None and i_r < i_m and isinstance(lb[i_r].value.args[0], ast.Name) and lb[i_r].value.args[0].id == lay.args.args[1].arg
    out.append({"clause": "TreeLayout.layout/resets-the-tree-before-measuring", "ok": bool(ok), "detail": "" if ok else "no unconditional self._reset(node) before self.measure(node)"})
    rb = body_of(rst)
    pname = rst.args.args[1].arg
    problems = []
    dropped = set()
    rec = []
    for st in rb:
        if isinstance(st, ast.If):
            t = st.test
            none_test = (isinstance(t, ast.Compare) and isinstance(t.left, ast.Name) and t.left.id == pname and len(t.ops) == 1 and isinstance(t.ops[0], ast.Is)
                         and isinstance(t.comparators[0], ast.Constant) and t.comparators[0].value is None) or (isinstance(t, ast.UnaryOp) and isinstance(t.op, ast.Not) and isinstance(t.operand, ast.Name) and t.operand.id == pname)
            only_return = len(st.body) == 1 and isinstance(st.body[0], ast.Return) and not st.orelse
            if not (none_test and only_return):
                problems.append(f"line {st.lineno}: a conditional other than the missing-node guard")
            continue
        if isinstance(st, ast.For) and isinstance(st.iter, (ast.Tuple, ast.List)) and all(isinstance(e, ast.Constant) for e in st.iter.elts):
            names = {e.value for e in st.iter.elts}
            uses = [n for n in ast.walk(ast.Module(body=st.body, type_ignores=[])) if isinstance(n, ast.Call) and isinstance(n.func, ast.Attribute) and n.func.attr == "pop"]
            plain = len(st.body) == 1 and isinstance(st.body[0], ast.Expr) and len(uses) == 1 and isinstance(uses[0].args[0], ast.Name) and uses[0].args[0].id == st.target.id
            if plain:
                dropped |= names
            else:
                problems.append(f"line {st.lineno}: loop body is not a plain pop of the attribute")
            continue
        if self_call(st, "_reset"):
            a = st.value.args[0]
            if isinstance(a, ast.Attribute) and isinstance(a.value, ast.Name) and a.value.id == pname:
                rec.append(a.attr)
            continue
        if isinstance(st, ast.Delete) or (isinstance(st, ast.Expr) and isinstance(st.value, ast.Call)):
            for n in ast.walk(st):
                if isinstance(n, ast.Constant) and isinstance(n.value, str):
                    dropped.add(n.value)
                if isinstance(n, ast.Attribute) and isinstance(n.value, ast.Name) and n.value.id == pname and isinstance(st, ast.Delete):
                    dropped.add(n.attr)
            continue
        if isinstance(st, (ast.Return, ast.Continue, ast.Break)):
            problems.append(f"line {st.lineno}: leaves before the children are reset")
            continue
    out.append({"clause": "TreeLayout._reset/unconditional-below-the-missing-node-guard", "ok": not problems, "detail": "; ".join(problems[:3])})
    out.append({"clause": "TreeLayout._reset/recurses-into-both-children", "ok": sorted(rec) == ["left", "right"], "detail": "" if sorted(rec) == ["left", "right"] else f"recursive calls on {rec}"})
    scratch = set()
    for n in ast.walk(mea):
        tg = n.targets if isinstance(n, ast.Assign) else [n.target] if isinstance(n, (ast.AugAssign, ast.AnnAssign)) else []
        for t in tg:
            if isinstance(t, ast.Attribute) and t.attr not in ("x", "y") and not (isinstance(t.value, ast.Name) and t.value.id in ("self", "extremes", "left_extremes", "right_extremes")):
                scratch.add(t.attr)
    missing = sorted(scratch - dropped)
    out.append({"clause": "TreeLayout._reset/drops-every-scratch-attribute-measure-stores-on-nodes", "ok": not missing, "detail": "" if not missing else f"not dropped: {missing} (dropped {sorted(dropped)})"})
    return out


class _Out:
    def __init__(self, result, error):
        self.result, self.error = result, error


def _sub(prefix):
    I = Interp(REPO)
    I.load_module("mathy_core.layout")
    res = []
    for o in explore(lambda ps: transform_path(I, ps), initial=[prefix]):
        res.append((o.result, str(o.error) if o.error is not None else None))
    return res


def _explore_parallel():
    """The eight top-level cases (children present / measurement given) in parallel."""
    import itertools
    import multiprocessing as mp

    prefixes = [list(p) for p in itertools.product((0, 1), repeat=3)]
    outs = []
    with mp.get_context("fork").Pool(8) as pool:
        for res in pool.map(_sub, prefixes):
            outs += [_Out(r, e) for r, e in res]
    return outs


def known_layout():
    p = os.path.join(VERIF, "known_layout_failures.json.gz")
    if not os.path.exists(p):
        return {}
    with gzip.open(p, "rt") as f:
        return json.load(f)


def run(tier: str, seed: int) -> int:
    R = Result("C18", tier, seed)
    I = Interp(REPO)
    try:
        I.load_module("mathy_core.layout")
    except Exception as e:  # noqa: BLE001
        R.engine_errors.append(f"cannot load sources: {e!r}")
        return R.finish()
    n_obl = n_ok = 0
    samples = []
    try:
        outs = _explore_parallel()
    except OutOfSubset as e:
        outs = []
        R.undecided.append(f"transform: out-of-subset: {e}")
    for o in outs:
        if o.error is not None:
            R.undecided.append(f"transform: out-of-subset: {o.error}")
            continue
        for ob in o.result["obligations"]:
            n_obl += 1
            if ob["ok"]:
                n_ok += 1
                if len(samples) < 3:
                    samples.append({"obligation": f"C18/{ob['clause']}", "path": o.result["labels"], "status": "proved"})
            else:
                R.violation(f"obligation C18/{ob['clause']} failed on path {o.result['labels']}: {ob['detail'][:240]}", {"obligation": ob, "path": o.result["labels"]}, False)
    for ob in measure_y_frame(REPO):
        n_obl += 1
        if ob["ok"]:
            n_ok += 1
        else:
            R.violation(f"obligation C18/{ob['clause']} failed: {ob['detail']}", {"obligation": ob}, False)
    for ob in reset_frame(REPO):
        n_obl += 1
        if ob["ok"]:
            n_ok += 1
        else:
            # the scan recognises one way of writing the reset; another way may be just as right: undecided here,
            # the histories of the bounded run (partial layouts first) give the violation with a failing shape
            R.undecided.append(f"{ob['clause']}: {ob['detail']}")
    if n_obl == 0:
        R.engine_errors.append("no obligations generated")
    # bounded stand-in
    n, nfull = (8, 15) if tier == "quick" else (10, 19)
    p = run_venv("layout_tierb.py", [str(n), str(nfull)], timeout=7200)
    bounded = {}
    if p.returncode != 0:
        R.engine_errors.append("tier-B failed: " + p.stderr[-300:])
    else:
        d = json.loads(p.stdout)
        known = known_layout()
        kpairs = known.get("failing", {})
        new = 0
        known_hit = 0
        for shape, clauses in d["failing"].items():
            for c in clauses:
                if c in kpairs.get(shape, []):
                    known_hit += 1
                else:
                    new += 1
                    if new <= 6:
                        R.violation(f"bounded check on real code: layout of shape {shape} violates '{c}' (not among the listed known failures)", {"shape": shape, "clause": c}, True)
        if known_hit:
            R.known({"id": "KF-C18-contour-clauses", "what": known.get("what", "")})
        bounded = {"max_nodes": d["max_nodes"], "max_nodes_full_binary_trees": d.get("max_nodes_full_trees"), "shapes": d["shapes"], "unit_multipliers": d["unit_multipliers"], "failing_pairs_known": known_hit, "failing_pairs_new": new, "exhaustive": True}
    R.level = "other"
    R.coverage = {
        "explanation": "transform/measure-y/bounds: deductive (structural induction); strictness, separation, mirror symmetry, repeatability: bounded over all shapes up to the stated size",
        "obligations": n_obl,
        "discharged": n_ok,
        "checker_cmd": f"/verif/bin/check C18 --tier {tier}",
        "trusted_base": ["pyvc symbolic executor", "reals for floats", "syntactic frame check for measure's writes to .y", "structural scan of layout()/_reset (reset before measure, unconditional, both children, covers measure's scratch attributes)"],
        "functions_under_contract": ["TreeLayout.transform (proved)", "TreeLayout.measure (y clause only, syntactic)", "TreeLayout.layout (entry arguments)"],
        "samples": samples,
        "bounded": bounded,
    }
    R.assumptions = ["the contour-dependent clauses are only checked up to the stated number of nodes"]
    return R.finish()
