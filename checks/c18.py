"""C18: tidy-tree layout.

Deductive part (all trees, no bound): `TreeLayout.transform` by structural induction - absolute x of a
child is x -/+ offset (hence a parent of two children is centred), y is scaled by the unit, and the
returned measurement is the running bounding box; `measure` assigns y = level (syntactic frame check:
the only write to .y, before the recursive calls with level + 1).
The clauses that depend on the contour walk with threads (strict left/right placement, separation in
level order, mirror symmetry) are outside what a contract within reach decides: bounded stand-in over
all shapes up to N nodes, with the currently failing (shape, clause) pairs listed as a known finding.
"""
from __future__ import annotations

import ast
import gzip
import json
import os
from typing import Any, Dict, List

import z3

from pyvc.explore import explore, prove
from pyvc.interp import Interp, PathState
from pyvc.values import Num, Obj, OutOfSubset, PyRaise, zreal

from .common import REPO, VERIF, Result, run_venv


def _valid(ps, goal):
    return prove(ps.pc, [], goal, timeout_ms=10000).status == "proved"


def transform_path(I: Interp, ps: PathState) -> Dict[str, Any]:
    I.ps = ps
    I.call_depth = 0
    obl: List[Dict[str, Any]] = []

    def ob(clause, ok, detail=""):
        obl.append({"clause": f"TreeLayout.transform/{clause}", "ok": bool(ok), "detail": detail if not ok else ""})

    layout = I.new_obj(["TreeLayout"], label="layout")
    node = I.new_obj(["BinaryTreeNode"], label="node")
    x, ux, uy = (Num(z3.Real(n)) for n in ("x", "ux", "uy"))
    y0, off = z3.Real("y0"), z3.Real("offset")
    node.cur.update({"y": Num(y0), "offset": Num(off), "x": None})
    kids = {}
    for side in ("left", "right"):
        if ps.choose(2, f"{side}-present") == 0:
            c = I.new_obj(["BinaryTreeNode"], label=side)
            kids[side] = c
            node.cur[side] = c
        else:
            node.cur[side] = None
    first = ps.choose(2, "measure-given") == 1
    m0 = {k: z3.Real(f"m_{k}") for k in ("minX", "maxX", "minY", "maxY")}
    if first:
        meas = I.new_obj(["TreeMeasurement"], label="measure")
        for k, v in m0.items():
            meas.cur[k] = Num(v)
        for k in ("width", "height", "centerX", "centerY"):
            meas.cur[k] = Num(z3.Real(f"m_{k}"))
        ps.assume(z3.And(m0["minX"] <= m0["maxX"], m0["minY"] <= m0["maxY"]))
    else:
        meas = None
    calls = []
    boxes = {}

    def contract(I2, args, kw, fv):
        me, nd = args[0], args[1] if len(args) > 1 else kw.get("node")
        if nd is None:
            # leaf call on an absent child: returns the measurement untouched
            return args[5] if len(args) > 5 else kw.get("measure")
        if nd is node:
            return I2.call_function(fv, args, kw, use_contract=False)
        cx = args[2]
        m = args[5] if len(args) > 5 else kw.get("measure")
        calls.append((nd, cx, args[3], args[4], m))
        # induction hypothesis: the subtree's coordinates were assigned and its bounding box merged
        b = {k: ps.fresh(f"box_{nd.label}_{k}", "Real") for k in ("minX", "maxX", "minY", "maxY")}
        ps.assume(z3.And(b["minX"] <= b["maxX"], b["minY"] <= b["maxY"]))
        boxes[nd.label] = b
        if isinstance(m, Obj):
            def mn(a, c):
                return z3.If(a < c, a, c)

            def mx(a, c):
                return z3.If(a > c, a, c)

            m.cur["minX"] = Num(mn(zreal(m.cur["minX"]), b["minX"]))
            m.cur["maxX"] = Num(mx(zreal(m.cur["maxX"]), b["maxX"]))
            m.cur["minY"] = Num(mn(zreal(m.cur["minY"]), b["minY"]))
            m.cur["maxY"] = Num(mx(zreal(m.cur["maxY"]), b["maxY"]))
        return m

    saved = dict(I.contracts)
    I.contracts["TreeLayout.transform"] = contract
    try:
        f = I.get_func("mathy_core.layout", "TreeLayout.transform")
        try:
            ret = I.call_function(f, [layout, node, x, ux, uy] + ([meas] if first else []), {}, use_contract=False)
        except PyRaise as pr:
            ob("no-raise", False, f"raised {pr.exc.clsname} at {pr.site}")
            return {"obligations": obl, "labels": list(ps.labels)}
    finally:
        I.contracts = saved
    nx, ny = node.cur.get("x"), node.cur.get("y")
    ob("x-is-relative-position-times-unit", isinstance(nx, Num) and _valid(ps, zreal(nx) == x.v * ux.v), repr(nx))
    ob("y-is-scaled-by-the-unit", isinstance(ny, Num) and _valid(ps, zreal(ny) == y0 * uy.v), repr(ny))
    want = [(kids[s], x.v - off if s == "left" else x.v + off) for s in ("left", "right") if s in kids]
    ok = len(calls) == len(want)
    for (nd, cx, cux, cuy, m), (wnd, wx) in zip(calls, want):
        ok = ok and nd is wnd and _valid(ps, zreal(cx) == wx) and cux is ux and cuy is uy and m is ret
    ob("children-placed-at-x-minus/plus-offset-left-then-right", ok, f"{[(str(c[0]), str(c[1])) for c in calls]}")
    if not isinstance(ret, Obj) or ret.clsname != "TreeMeasurement":
        ob("returns-the-measurement", False, repr(ret))
        return {"obligations": obl, "labels": list(ps.labels)}
    ob("returns-the-given-measurement-object", (not first) or ret is meas, repr(ret))
    # running bounding box: before (given values or the constructor's sentinels), this node, children's boxes
    if first:
        base = m0
    else:
        base = {"minX": z3.RealVal(10000), "maxX": z3.RealVal(0), "minY": z3.RealVal(10000), "maxY": z3.RealVal(0)}
    xs = [zreal(nx)] + [boxes[k.label][a] for k in kids.values() for a in ("minX", "maxX") if k.label in boxes]
    ys = [zreal(ny)] + [boxes[k.label][a] for k in kids.values() for a in ("minY", "maxY") if k.label in boxes]

    def lo(vals, start):
        r = start
        for v in vals:
            r = z3.If(v < r, v, r)
        return r

    def hi(vals, start):
        r = start
        for v in vals:
            r = z3.If(v > r, v, r)
        return r

    g = z3.And(
        zreal(ret.cur["minX"]) == lo(xs, base["minX"]), zreal(ret.cur["maxX"]) == hi(xs, base["maxX"]),
        zreal(ret.cur["minY"]) == lo(ys, base["minY"]), zreal(ret.cur["maxY"]) == hi(ys, base["maxY"]),
    )
    ob("measurement-is-the-running-bounding-box", _valid(ps, g), "min/max not merged correctly")
    w, h = zreal(ret.cur["width"]), zreal(ret.cur["height"])
    g2 = z3.And(w == zreal(ret.cur["maxX"]) - zreal(ret.cur["minX"]), h == zreal(ret.cur["maxY"]) - zreal(ret.cur["minY"]),
                zreal(ret.cur["centerX"]) == zreal(ret.cur["minX"]) + w / 2, zreal(ret.cur["centerY"]) == zreal(ret.cur["minY"]) + h / 2)
    ob("width-height-centre-derived-from-the-box", _valid(ps, g2), "derived fields inconsistent")
    return {"obligations": obl, "labels": list(ps.labels)}


def measure_y_frame(repo) -> List[Dict[str, Any]]:
    """`measure` assigns node.y = level and recurses with level + 1; nothing else writes .y."""
    src = open(os.path.join(repo, "mathy_core", "layout.py")).read()
    tree = ast.parse(src)
    out = []
    cls = next((n for n in tree.body if isinstance(n, ast.ClassDef) and n.name == "TreeLayout"), None)
    m = next((n for n in cls.body if isinstance(n, ast.FunctionDef) and n.name == "measure"), None) if cls else None
    if m is None:
        return [{"clause": "TreeLayout.measure/found", "ok": False, "detail": "measure not found"}]
    ywrites = [n for n in ast.walk(m) if isinstance(n, (ast.Assign, ast.AugAssign)) and any(isinstance(t, ast.Attribute) and t.attr == "y" for t in (n.targets if isinstance(n, ast.Assign) else [n.target]))]
    ok = len(ywrites) == 1 and isinstance(ywrites[0], ast.Assign) and isinstance(ywrites[0].value, ast.Name) and ywrites[0].value.id == "level" \
        and isinstance(ywrites[0].targets[0].value, ast.Name) and ywrites[0].targets[0].value.id == "node"
    out.append({"clause": "TreeLayout.measure/y-assigned-once-as-level", "ok": ok, "detail": "" if ok else f"{len(ywrites)} writes to .y"})
    rec = [n for n in ast.walk(m) if isinstance(n, ast.Call) and isinstance(n.func, ast.Attribute) and n.func.attr == "measure"]
    ok2 = len(rec) == 2 and all(len(c.args) >= 2 and isinstance(c.args[1], ast.BinOp) and isinstance(c.args[1].op, ast.Add) and isinstance(c.args[1].left, ast.Name)
                                and c.args[1].left.id == "level" and isinstance(c.args[1].right, ast.Constant) and c.args[1].right.value == 1 for c in rec)
    names = [getattr(c.args[0], "id", None) for c in rec]
    out.append({"clause": "TreeLayout.measure/recurses-on-both-children-with-level+1", "ok": ok2 and names == ["left", "right"], "detail": "" if ok2 else "recursive calls differ"})
    lay = next((n for n in cls.body if isinstance(n, ast.FunctionDef) and n.name == "layout"), None)
    # layout(): measure from level 0 (default) and transform from x = 0
    tcalls = [n for n in ast.walk(lay) if isinstance(n, ast.Call) and isinstance(n.func, ast.Attribute) and n.func.attr == "transform"] if lay else []
    ok3 = len(tcalls) == 1 and len(tcalls[0].args) >= 2 and isinstance(tcalls[0].args[1], ast.Constant) and tcalls[0].args[1].value == 0
    out.append({"clause": "TreeLayout.layout/root-at-x-0", "ok": ok3, "detail": "" if ok3 else "transform not started at 0"})
    return out


class _Out:
    def __init__(self, result, error):
        self.result, self.error = result, error


def _sub(prefix):
    I = Interp(REPO)
    I.load_module("mathy_core.layout")
    res = []
    for o in explore(lambda ps: transform_path(I, ps), initial=[prefix]):
        res.append((o.result, str(o.error) if o.error is not None else None))
    return res


def _explore_parallel():
    """The eight top-level cases (children present / measurement given) in parallel."""
    import itertools
    import multiprocessing as mp

    prefixes = [list(p) for p in itertools.product((0, 1), repeat=3)]
    outs = []
    with mp.get_context("fork").Pool(8) as pool:
        for res in pool.map(_sub, prefixes):
            outs += [_Out(r, e) for r, e in res]
    return outs


def known_layout():
    p = os.path.join(VERIF, "known_layout_failures.json.gz")
    if not os.path.exists(p):
        return {}
    with gzip.open(p, "rt") as f:
        return json.load(f)


def run(tier: str, seed: int) -> int:
    R = Result("C18", tier, seed)
    I = Interp(REPO)
    try:
        I.load_module("mathy_core.layout")
    except Exception as e:  # noqa: BLE001
        R.engine_errors.append(f"cannot load sources: {e!r}")
        return R.finish()
    n_obl = n_ok = 0
    samples = []
    try:
        outs = _explore_parallel()
    except OutOfSubset as e:
        outs = []
        R.undecided.append(f"transform: out-of-subset: {e}")
    for o in outs:
        if o.error is not None:
            R.undecided.append(f"transform: out-of-subset: {o.error}")
            continue
        for ob in o.result["obligations"]:
            n_obl += 1
            if ob["ok"]:
                n_ok += 1
                if len(samples) < 3:
                    samples.append({"obligation": f"C18/{ob['clause']}", "path": o.result["labels"], "status": "proved"})
            else:
                R.violation(f"obligation C18/{ob['clause']} failed on path {o.result['labels']}: {ob['detail'][:240]}", {"obligation": ob, "path": o.result["labels"]}, False)
    for ob in measure_y_frame(REPO):
        n_obl += 1
        if ob["ok"]:
            n_ok += 1
        else:
            R.violation(f"obligation C18/{ob['clause']} failed: {ob['detail']}", {"obligation": ob}, False)
    if n_obl == 0:
        R.engine_errors.append("no obligations generated")
    # bounded stand-in
    n, nfull = (8, 15) if tier == "quick" else (10, 19)
    p = run_venv("layout_tierb.py", [str(n), str(nfull)], timeout=7200)
    bounded = {}
    if p.returncode != 0:
        R.engine_errors.append("tier-B failed: " + p.stderr[-300:])
    else:
        d = json.loads(p.stdout)
        known = known_layout()
        kpairs = known.get("failing", {})
        new = 0
        known_hit = 0
        for shape, clauses in d["failing"].items():
            for c in clauses:
                if c in kpairs.get(shape, []):
                    known_hit += 1
                else:
                    new += 1
                    if new <= 6:
                        R.violation(f"bounded check on real code: layout of shape {shape} violates '{c}' (not among the listed known failures)", {"shape": shape, "clause": c}, True)
        if known_hit:
            R.known({"id": "KF-C18-contour-clauses", "what": known.get("what", "")})
        bounded = {"max_nodes": d["max_nodes"], "max_nodes_full_binary_trees": d.get("max_nodes_full_trees"), "shapes": d["shapes"], "unit_multipliers": d["unit_multipliers"], "failing_pairs_known": known_hit, "failing_pairs_new": new, "exhaustive": True}
    R.level = "other"
    R.coverage = {
        "explanation": "transform/measure-y/bounds: deductive (structural induction); strictness, separation, mirror symmetry, repeatability: bounded over all shapes up to the stated size",
        "obligations": n_obl,
        "discharged": n_ok,
        "checker_cmd": f"/verif/bin/check C18 --tier {tier}",
        "trusted_base": ["pyvc symbolic executor", "reals for floats", "syntactic frame check for measure's writes to .y"],
        "functions_under_contract": ["TreeLayout.transform (proved)", "TreeLayout.measure (y clause only, syntactic)", "TreeLayout.layout (entry arguments)"],
        "samples": samples,
        "bounded": bounded,
    }
    R.assumptions = ["the contour-dependent clauses are only checked up to the stated number of nodes"]
    return R.finish()
