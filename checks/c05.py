"""C05: evaluation computes the mathematically correct number.

Deductive part (integers/reals, no bound): every `operate` against its arithmetic specification and
the closure of number types (no fixed-width integer is ever produced from Python numbers);
Variable.evaluate / ConstantExpression.evaluate / UnaryExpression.evaluate / BinaryExpression.evaluate
against the recursive definition of the value.  The IEEE clause ("within a few ulps") is outside a
real-arithmetic encoding: bounded stand-in on a magnitude grid.
"""
from __future__ import annotations

import json
from typing import Any, Dict, List

import z3

from pyvc import externals
from pyvc.explore import explore, prove
from pyvc.heap import DEFPOW, FACT, POW
from pyvc.interp import Interp, PathState
from pyvc.values import INF, NAN, DictObj, IdStr, Num, Obj, OutOfSubset, PyRaise, b_and, b_not, zbool, zreal

from .common import REPO, Result, load_known, match_known, run_venv, tierb_json

BINARY_OPS = ["AddExpression", "SubtractExpression", "MultiplyExpression", "DivideExpression", "PowerExpression", "EqualExpression"]
UNARY_OPS = ["NegateExpression", "AbsExpression", "SgnExpression", "FactorialExpression"]


def _sym_number(ps, name):
    """A Python int, Python float or numpy float64 (what the parser and the operators produce)."""
    v = z3.Real(name)
    f = z3.Bool(name + "_isfloat")
    n = z3.Bool(name + "_isnp")
    ps.assume(z3.Implies(z3.Not(f), z3.IsInt(v)))  # integers are integer-valued
    ps.assume(z3.Implies(n, f))  # no fixed-width integer comes in
    return Num(v, (f, n))


def operate_path(I: Interp, ps: PathState, kind: str) -> Dict[str, Any]:
    I.ps = ps
    I.call_depth = 0
    obl: List[Dict[str, Any]] = []

    def ob(clause, ok, detail="", goal=None):
        if goal is not None:
            v = prove(ps.pc, [], goal, timeout_ms=10000)
            ok = v.status == "proved"
            detail = detail or (f"{v.status}: {v.model}" if v.model is not None else v.status)
            if v.status == "unknown":
                obl.append({"clause": f"{kind}.operate/{clause}", "ok": False, "unknown": True, "detail": detail})
                return
        obl.append({"clause": f"{kind}.operate/{clause}", "ok": bool(ok), "detail": detail if not ok else ""})

    me = I.new_obj([kind], label="op")
    one = _sym_number(ps, "one")
    args = [one]
    if kind in BINARY_OPS:
        two = _sym_number(ps, "two")
        args.append(two)
    raised = None
    ret = None
    try:
        ret = I.call_method(me, "operate", args, {})
    except PyRaise as pr:
        raised = pr
    a = zreal(one)
    b = zreal(args[1]) if len(args) > 1 else None
    ints = z3.And(z3.Not(zbool(one.tag[0])), *( [z3.Not(zbool(args[1].tag[0]))] if len(args) > 1 else []))

    def expect_value(spec, int_closed=True):
        if raised is not None:
            ob("no-raise", False, f"raised {raised.exc.clsname} at {raised.site}")
            return
        if not isinstance(ret, Num):
            if isinstance(ret, (int, float)) and not isinstance(ret, bool):
                ob("value", True, goal=(z3.RealVal(str(ret)) == spec))
                return
            ob("value", False, f"returned {ret!r}")
            return
        ob("value", True, goal=(zreal(ret) == spec))
        # closure of number types: never a fixed-width integer; ints stay Python ints
        ob("no-fixed-width-integer", True, goal=z3.Not(z3.And(zbool(ret.tag[1]), z3.Not(zbool(ret.tag[0])))))
        if int_closed:
            ob("python-ints-give-python-int", True, goal=z3.Implies(ints, z3.And(z3.Not(zbool(ret.tag[0])), z3.Not(zbool(ret.tag[1])))))

    if kind == "AddExpression":
        expect_value(a + b)
    elif kind == "SubtractExpression":
        expect_value(a - b)
    elif kind == "MultiplyExpression":
        expect_value(a * b)
    elif kind == "DivideExpression":
        zero = z3.is_true(z3.simplify(z3.And(*ps.pc) if False else z3.BoolVal(False)))
        # decide by the path: was `two == 0` taken?
        r = prove(ps.pc, [], b == 0, timeout_ms=5000)
        if r.status == "proved":
            ob("division-by-zero-yields-NaN", raised is None and ret is NAN, f"ret={ret!r} raised={raised}")
        else:
            ob("path-is-nonzero-divisor", True, goal=(b != 0))
            expect_value(a / b, int_closed=False)
    elif kind == "PowerExpression":
        if raised is not None:
            ob("no-raise", False, f"raised {raised.exc.clsname} at {raised.site}")
        elif ret is NAN:
            ob("NaN-only-outside-the-real-domain", True, goal=z3.Not(DEFPOW(a, b)))
        elif ret is INF:
            # the IEEE result at a pole of the power function
            ob("infinity-only-at-a-pole-(0-to-a-negative-power)", True, goal=z3.And(a == 0, b < 0))
        else:
            expect_value(POW(a, b), int_closed=False)
            nonneg_ints = z3.And(ints, b >= 0)
            ob("int-to-nonneg-int-is-exact-python-int", True,
               goal=z3.Implies(nonneg_ints, z3.And(zreal(ret) == POW(a, b), z3.Not(zbool(ret.tag[0])), z3.Not(zbool(ret.tag[1])))))
    elif kind == "EqualExpression":
        r = prove(ps.pc, [], a == b, timeout_ms=5000)
        if r.status == "proved":
            expect_value(a, int_closed=False)
        else:
            ob("path-has-different-sides", True, goal=(a != b))
            ob("different-sides-raise-ValueError", raised is not None and raised.exc.clsname == "ValueError", f"ret={ret!r}")
    elif kind == "NegateExpression":
        expect_value(-a)
    elif kind == "AbsExpression":
        expect_value(z3.If(a >= 0, a, -a))
    elif kind == "SgnExpression":
        expect_value(z3.If(a < 0, z3.RealVal(-1), z3.If(a > 0, z3.RealVal(1), z3.RealVal(0))))
    elif kind == "FactorialExpression":
        dom = prove(ps.pc, [], z3.And(z3.IsInt(a), a >= 0), timeout_ms=5000)
        if dom.status == "proved":
            expect_value(FACT(a))
        elif raised is not None:
            ob("outside-domain-raises-ValueError", raised.exc.clsname == "ValueError", raised.exc.clsname)
        else:
            # non-integer / negative operand: no claim (the parser only builds c! for literals)
            pass
    return {"obligations": obl, "labels": list(ps.labels)}


class SymContext:
    """An arbitrary assignment: for the looked-up identifier the entry is absent / None / a number."""

    def __init__(self, ps, mode):
        self.mode = mode  # 'none' | 'empty' | 'absent' | 'value-none' | 'number' | 'zero'
        self.ps = ps
        self.val = _sym_number(ps, "ctxval") if mode == "number" else (0 if mode == "zero" else None)

    def truth(self, I):
        return self.mode not in ("empty",)

    def method(self, I, name, args, kw):
        if name == "get":
            if self.mode in ("absent", "empty"):
                return args[1] if len(args) > 1 else None
            return self.val
        raise OutOfSubset(f"context.{name}")

    def getitem(self, I, key):
        if self.mode in ("absent", "empty"):
            I.raise_("KeyError", "missing", implicit=True, site="context[]")
        return self.val


def variable_path(I: Interp, ps: PathState) -> Dict[str, Any]:
    I.ps = ps
    I.call_depth = 0
    obl = []
    mode = ["none", "empty", "absent", "value-none", "number", "zero"][ps.choose(6, "context")]
    me = I.new_obj(["VariableExpression"], label="var")
    me.cur["identifier"] = IdStr(z3.Int("ident"))
    me.cur["_rendering_change"] = False
    ctx = None if mode == "none" else SymContext(ps, mode)
    try:
        ret = I.call_method(me, "evaluate", [ctx], {})
        raised = None
    except PyRaise as pr:
        ret, raised = None, pr
    if mode in ("number", "zero"):
        ok = raised is None and (ret is ctx.val)
        obl.append({"clause": f"VariableExpression.evaluate/returns-assigned-value[{mode}]", "ok": ok, "detail": f"ret={ret!r} raised={raised}"})
    else:
        ok = raised is not None and raised.exc.clsname == "ValueError" and not raised.implicit
        obl.append({"clause": f"VariableExpression.evaluate/unbound-is-ValueError[{mode}]", "ok": ok, "detail": f"ret={ret!r} raised={raised.exc.clsname if raised else None}"})
    return {"obligations": obl, "labels": list(ps.labels)}


def evaluate_body_path(I: Interp, ps: PathState, base: str, kind: str = None) -> Dict[str, Any]:
    """UnaryExpression.evaluate / BinaryExpression.evaluate: evaluate the operands with the same
    context (induction hypothesis: contract) and apply operate to the results in operand order."""
    I.ps = ps
    I.call_depth = 0
    obl = []

    def ob(clause, ok, detail=""):
        obl.append({"clause": f"{kind}.evaluate/{clause}", "ok": bool(ok), "detail": detail if not ok else ""})

    kind = kind or ("AddExpression" if base == "BinaryExpression" else "NegateExpression")
    me = I.new_obj([kind], label="self")
    ctx = I.new_obj(["object"], label="context")
    kids = {}
    for side in ("left", "right"):
        present = ps.choose(2, f"{side}-present") == 0
        if present:
            c = I.new_obj(["ConstantExpression"], label=side)
            kids[side] = c
            me.cur[side] = c
        else:
            me.cur[side] = None
    if base == "UnaryExpression":
        me.cur["child_on_left"] = ps.choose(2, "child_on_left") == 1
    calls = []
    results = {id(c): Num(z3.Real(f"val_{s}")) for s, c in kids.items()}

    def c_eval(I2, args, kw, fv):
        calls.append((args[0], args[1] if len(args) > 1 else kw.get("context")))
        return results[id(args[0])]

    opargs = []

    def c_operate(I2, args, kw, fv):
        opargs.append(args[1:])
        return "RESULT"

    saved = dict(I.contracts)
    for k in ("ConstantExpression",):
        I.contracts[f"{k}.evaluate"] = c_eval
    for c in I.classes.values():
        if "operate" in c.methods:
            I.contracts[f"{c.name}.operate"] = c_operate
    try:
        f = I.classes[kind].lookup("evaluate")[1]  # the definition this class really uses
        try:
            ret = I.call_function(f, [me, ctx], {}, use_contract=False)
            raised = None
        except PyRaise as pr:
            ret, raised = None, pr
    finally:
        I.contracts = saved
    if base == "BinaryExpression":
        if len(kids) < 2:
            ob("missing-operand-is-ValueError", raised is not None and raised.exc.clsname == "ValueError", f"ret={ret!r}")
        else:
            ob("evaluates-both-operands-with-the-context", [c for c, _ in calls] == [kids["left"], kids["right"]] and all(x is ctx for _, x in calls), str(calls))
            ob("applies-operate-in-operand-order", opargs == [[results[id(kids["left"])], results[id(kids["right"])]]] and ret == "RESULT", f"{opargs} ret={ret!r}")
    else:
        side = "left" if me.cur["child_on_left"] else "right"
        if side not in kids:
            ob("missing-operand-is-ValueError", raised is not None and raised.exc.clsname == "ValueError", f"ret={ret!r}")
        else:
            ob("evaluates-its-operand-with-the-context", calls == [(kids[side], ctx)], str(calls))
            ob("applies-operate", opargs == [[results[id(kids[side])]]] and ret == "RESULT", f"{opargs} ret={ret!r}")
    return {"obligations": obl, "labels": list(ps.labels)}


def run(tier: str, seed: int) -> int:
    R = Result("C05", tier, seed)
    known = load_known()
    I = Interp(REPO)
    externals.install(I)
    try:
        I.load_module("mathy_core.expressions")
    except Exception as e:  # noqa: BLE001
        R.engine_errors.append(f"cannot load sources: {e!r}")
        return R.finish()
    jobs = [(k, (lambda ps, k=k: operate_path(I, ps, k))) for k in BINARY_OPS + UNARY_OPS]
    jobs.append(("VariableExpression.evaluate", lambda ps: variable_path(I, ps)))
    jobs += [(f"{k}.evaluate", (lambda ps, k=k: evaluate_body_path(I, ps, "BinaryExpression", k))) for k in BINARY_OPS]
    jobs += [(f"{k}.evaluate", (lambda ps, k=k: evaluate_body_path(I, ps, "UnaryExpression", k))) for k in UNARY_OPS]
    n_obl = n_ok = 0
    per_fn: Dict[str, int] = {}
    samples = []
    nviol = 0
    for name, fn in jobs:
        try:
            outs = explore(fn)
        except OutOfSubset as e:
            R.undecided.append(f"{name}: out-of-subset: {e}")
            continue
        for o in outs:
            if o.error is not None:
                R.undecided.append(f"{name}: out-of-subset: {o.error}")
                continue
            for ob in o.result["obligations"]:
                n_obl += 1
                per_fn[name] = per_fn.get(name, 0) + 1
                if ob["ok"]:
                    n_ok += 1
                    if len(samples) < 4 and ob["clause"].endswith("/value"):
                        samples.append({"obligation": f"C05/{ob['clause']}", "path": o.result["labels"], "status": "proved", "backend": "z3"})
                    continue
                if ob.get("unknown"):
                    R.undecided.append(f"C05/{ob['clause']}: solver undecided")
                    continue
                k = match_known(known, "C05", {"cfg": name, "clause": ob["clause"], "shape": {}, "cases": [], "detail": ob["detail"]})
                if k is not None:
                    R.known(k)
                    continue
                nviol += 1
                R.violation(f"obligation C05/{ob['clause']} failed on path {o.result['labels']}: {ob['detail'][:240]}", {"obligation": ob, "path": o.result["labels"]}, False)
        if per_fn.get(name, 0) == 0 and not any(u.startswith(name) for u in R.undecided):
            R.engine_errors.append(f"vacuous: no obligation for {name}")
    p = run_venv("eval_tierb.py", [tier], timeout=3000)
    bounded = {}
    if p.returncode not in (0, 1):
        R.engine_errors.append("tier-B failed: " + p.stderr[-300:])
    else:
        bounded = tierb_json(p, R)
        for f in bounded.get("failures", []):
            k = match_known(known, "C05", {"cfg": "tierb", "clause": f["clause"], "shape": {}, "cases": [], "detail": f["detail"]})
            if k is not None:
                R.known(k)
                continue
            R.violation(f"bounded check on real code: {f['clause']}: {f['detail'][:240]}", {"failure": f}, True)
    R.level = "other"
    from . import engine_diff

    diff_summary = engine_diff.report(R, engine_diff.methods_diff(), "evaluate / clone / traversals / rotate / term functions on concrete trees")
    R.coverage = {
        "engine_differential": diff_summary,
        "explanation": "integer/real clauses: deductive obligations on every operate and evaluate body (all discharged = proof of those clauses); IEEE 'few ulps' clause: bounded magnitude grid on the real code (not proved)",
        "obligations": n_obl,
        "discharged": n_ok,
        "checker_cmd": f"/verif/bin/check C05 --tier {tier}",
        "trusted_base": ["pyvc symbolic executor", "external contracts: numpy.power (float branch), math.factorial, int ** int exact (pyvc/externals.py)", "reals for floats in the deductive part"],
        "obligations_per_function": per_fn,
        "functions_under_contract": list(per_fn),
        "samples": samples,
        "bounded": {k: v for k, v in bounded.items() if k != "failures"},
    }
    R.assumptions = ["inputs are Python ints / floats or numpy float64 produced by earlier operators (no fixed-width integers come in; the closure obligation shows none is produced)",
                     "floating-point rounding is not modelled deductively (bounded grid stands in)"]
    return R.finish()
