"""Run-time check of the rule contracts (C01, C02, C06, C07) on concrete trees: the replay harness
for symbolic counter-models and the bounded stand-in (exhaustive small scope)."""
from __future__ import annotations

import json
import sys
from fractions import Fraction
from typing import Any, Dict, List

from treelib import (  # type: ignore
    ASSIGNMENTS,
    E,
    Undefined,
    at_path,
    build,
    close,
    exact_eval,
    find_label,
    holds,
    kind,
    nodes_inorder,
    path_of,
    shape_of,
    snapshot,
    variables,
    wf_problems,
)

import importlib

RULES = {
    "associative_swap": ("mathy_core.rules.associative_swap", "AssociativeSwapRule", {}),
    "commutative_swap": ("mathy_core.rules.commutative_swap", "CommutativeSwapRule", {}),
    "commutative_swap[preferred=False]": ("mathy_core.rules.commutative_swap", "CommutativeSwapRule", {"preferred": False}),
    "constants_simplify": ("mathy_core.rules.constants_simplify", "ConstantsSimplifyRule", {}),
    "distributive_factor_out": ("mathy_core.rules.distributive_factor_out", "DistributiveFactorOutRule", {}),
    "distributive_factor_out[constants=True]": ("mathy_core.rules.distributive_factor_out", "DistributiveFactorOutRule", {"constants": True}),
    "distributive_multiply_across": ("mathy_core.rules.distributive_multiply_across", "DistributiveMultiplyRule", {}),
    "multiplicative_inverse": ("mathy_core.rules.multiplicative_inverse", "MultiplicativeInverseRule", {}),
    "restate_subtraction": ("mathy_core.rules.restate_subtraction", "RestateSubtractionRule", {}),
    "variable_multiply": ("mathy_core.rules.variable_multiply", "VariableMultiplyRule", {}),
    "balanced_move": ("mathy_core.rules.balanced_move", "BalancedMoveRule", {}),
}


def make_rule(name):
    mod, cls, opts = RULES[name]
    return getattr(importlib.import_module(mod), cls)(**opts)


def evaluate(root, env):
    try:
        return exact_eval(root, env)
    except Undefined:
        return None
    except (OverflowError, ZeroDivisionError, ValueError):
        return None


def check_application(rule_name: str, root, node, envs=None, info=None) -> List[Dict[str, Any]]:
    """Apply the rule the way search agents do (on a copy cloned from the root) and check the
    contract.  Returns a list of failures (empty = contract held)."""
    envs = envs or ASSIGNMENTS
    fails: List[Dict[str, Any]] = []
    rule = make_rule(rule_name)
    shape = shape_of(node)

    def fail(prop, clause, detail):
        fails.append({"prop": prop, "clause": clause, "detail": detail, "cfg": rule_name, "shape": shape,
                      "input": str(root), "node": str(node), "node_path": path_of(node)})

    snap0 = snapshot(root)
    try:
        can = rule.can_apply_to(node)
        can2 = rule.can_apply_to(node)
    except Exception as e:  # noqa: BLE001
        fail("C06", "can_apply_to/no-raise", f"raised {type(e).__name__}: {e}"[:200])
        return fails
    if snapshot(root) != snap0:
        fail("C06", "can_apply_to/pure", "the tree was modified by the applicability check")
    if can is not can2 or not isinstance(can, bool):
        fail("C06", "can_apply_to/deterministic", f"answers {can!r} then {can2!r}")
    if info is not None:
        info["applicable"] = bool(can)
    if not can:
        return fails
    work = node.clone_from_root()
    if path_of(work) != path_of(node) or kind(work) != kind(node) or work.get_root() is root:
        fail("C07", "clone/locates-node", f"clone_from_root returned the node at '{path_of(work)}' for the node at '{path_of(node)}'")
        return fails
    before_vals = [evaluate(root, e) for e in envs]
    try:
        change = rule.apply_to(work)
    except Exception as e:  # noqa: BLE001
        fail("C06", "apply_to/no-raise", f"raised {type(e).__name__}: {e}"[:200])
        return fails
    res = getattr(change, "result", None)
    if not isinstance(res, E.MathExpression):
        fail("C06", "apply_to/result-is-expression", repr(res))
        return fails
    if snapshot(root) != snap0:
        fail("C07", "frame/untouched-context", "the tree the copy was cloned from was modified")
    new_root = res.get_root()
    payload: List[str] = []
    probs = wf_problems(new_root, payload=payload)
    if payload:
        fail("C09", "closure/constant-payload", "; ".join(payload[:3]))
    if probs:
        fail("C07", "structure/well-formed", "; ".join(probs[:3]))
        return fails
    try:
        if variables(new_root) != variables(root):
            fail("C07", "variables/same-set", f"{sorted(variables(root))} -> {sorted(variables(new_root))}")
    except Exception as e:  # noqa: BLE001
        fail("C07", "structure/well-formed", f"traversal raised {type(e).__name__}")
        return fails
    is_eq = kind(root) == "EqualExpression"
    if is_eq and kind(new_root) != "EqualExpression":
        fail("C02", "equation/stays-equation", f"root became {kind(new_root)}")
        return fails
    for env, b in zip(envs, before_vals):
        a = evaluate(new_root, env)
        if a is None or b is None:
            continue
        if is_eq:
            if holds(a) != holds(b):
                fail("C02", "equation/same-solutions", f"at {env}: holds {holds(b)} -> {holds(a)}: {root} -> {new_root}")
                break
        else:
            if isinstance(a, tuple) or isinstance(b, tuple):
                continue
            if not close(a, b):
                fail("C01", "value/preserved", f"at {env}: {float(b)} -> {float(a)}: {root} -> {new_root}")
                break
    return fails


def check_find(rule_name: str, root) -> List[Dict[str, Any]]:
    """C06 third clause: find_nodes == in-order filter with indices recorded; find_node == first."""
    fails = []
    rule = make_rule(rule_name)
    nodes = nodes_inorder(root)
    expect = [n for n in nodes if rule.can_apply_to(n)]
    got = rule.find_nodes(root)
    if len(got) != len(expect) or any(a is not b for a, b in zip(got, expect)):
        fails.append({"prop": "C06", "clause": "find_nodes/exact", "cfg": rule_name, "input": str(root),
                      "detail": f"expected {[str(n) for n in expect]} got {[str(n) for n in got]}", "shape": {}})
    for i, n in enumerate(nodes):
        if getattr(n, "r_index", None) != i:
            fails.append({"prop": "C06", "clause": "find_nodes/r_index", "cfg": rule_name, "input": str(root),
                          "detail": f"node {n} has r_index {getattr(n, 'r_index', None)} expected {i}", "shape": {}})
            break
    first = rule.find_node(root)
    if first is not (expect[0] if expect else None):
        fails.append({"prop": "C06", "clause": "find_node/first", "cfg": rule_name, "input": str(root),
                      "detail": f"expected {expect[0] if expect else None} got {first}", "shape": {}})
    return fails


# ------------------------------------------------------------------ replay of symbolic witnesses
CONTEXTS = ["{}", "2 * ({})", "-({})", "5 - ({})", "({})^2", "({}) / 2", "3 + ({})"]


def replay_witness(w: Dict[str, Any]) -> Dict[str, Any]:
    """Realise a counter-model of the symbolic engine and run the contract on the real code."""
    names = {"next": 0, "env": {}}
    root = build(w["tree"], names)
    node = find_label(w["tree"], root, w["node_oid"])
    if node is None:
        return {"realised": False, "reason": "node not found in realised tree"}
    env = {k: Fraction(v).limit_denominator(10**6) if isinstance(v, float) else Fraction(v) for k, v in names["env"].items() if v is not None}
    envs = [env] + [dict(env, **{k: env[k] + d for k in env}) for d in (1, -2)]
    info: Dict[str, Any] = {}
    fails = check_application(w["rule"], root, node, envs, info)
    return {"realised": True, "input": str(root), "node": str(node), "env": {k: str(v) for k, v in env.items()}, "failures": fails, "applicable": info.get("applicable")}


def main():
    cmd = sys.argv[1]
    if cmd == "replay":
        w = json.load(open(sys.argv[2]))
        wit = w.get("witness", w)
        out = replay_witness(wit)
        print(json.dumps(out, indent=1, default=str))
        sys.exit(1 if out.get("failures") else 0)
    if cmd == "replay-stdin":
        out = []
        import signal

        class _Slow(Exception):
            pass

        def _alarm(*_a):
            raise _Slow()

        signal.signal(signal.SIGALRM, _alarm)
        for w in json.load(sys.stdin):
            try:
                signal.alarm(20)  # util.factor is trial division: a witness with a huge constant can take minutes
                out.append(replay_witness(w))
            except _Slow:
                out.append({"realised": False, "reason": "native replay exceeded 20 s"})
            except Exception as e:  # noqa: BLE001
                out.append({"realised": False, "reason": f"{type(e).__name__}: {e}"})
            finally:
                signal.alarm(0)
        print(json.dumps(out, default=str))
        return
    if cmd == "text":
        # text, rule, node text (or index)
        from treelib import ExpressionParser

        spec = json.load(sys.stdin)
        res = []
        for item in spec:
            root = ExpressionParser().parse(item["text"]).clone()
            nodes = nodes_inorder(root)
            node = at_path(root, item["path"]) if "path" in item else [n for n in nodes if str(n) == item["node"]][0]
            res.append(check_application(item["rule"], root, node))
        print(json.dumps(res, default=str))
        return


if __name__ == "__main__":
    main()
