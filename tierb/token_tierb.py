"""Bounded stand-in for C11 on the real tokenizer: every string up to a length bound over a
representative alphabet, both padding modes, against a reference tokenizer written from the property."""
from __future__ import annotations

import itertools
import json
import sys

from treelib import REPO  # type: ignore  # noqa: F401

from mathy_core.tokenizer import TOKEN_TYPES, Tokenizer

T = TOKEN_TYPES
OPS = {"+": T.Plus, "-": T.Minus, "–": T.Minus, "*": T.Multiply, "/": T.Divide, "^": T.Exponent, "!": T.Factorial, "(": T.OpenParen, "[": T.OpenParen,
       ")": T.CloseParen, "]": T.CloseParen, "=": T.Equal}
NORM = {"–": "-", "[": "(", "]": ")"}
WS = " \t\r\n"
ALPHABET = ["1", "7", ".", "x", "Z", "s", "g", "n", "S", "G", "+", "-", "–", "*", "/", "^", "!", "=", "(", ")", "[", "]", " ", "\t", "\n", "$", "é", "_"]


def is_digit(c):
    return c == "." or ("0" <= c <= "9")


def is_alpha(c):
    return ("a" <= c <= "z") or ("A" <= c <= "Z")


def reference(s, keep_padding, functions=("sgn",)):
    out = []
    i = 0
    while i < len(s):
        c = s[i]
        if is_digit(c):
            j = i
            while j < len(s) and is_digit(s[j]):
                j += 1
            out.append((T.Constant, s[i:j]))
            i = j
        elif is_alpha(c):
            j = i
            while j < len(s) and is_alpha(s[j]):
                j += 1
            run = s[i:j]
            if run in functions:
                out.append((T.Function, run))
            else:
                out += [(T.Variable, ch) for ch in run]
            i = j
        elif c in WS:
            if keep_padding:
                out.append((T.Pad, c))
            i += 1
        elif c in OPS:
            out.append((OPS[c], NORM.get(c, c)))
            i += 1
        else:
            return "ValueError"
    out.append((T.EOF, ""))
    return out


def main():
    maxlen = int(sys.argv[1])
    fails = []
    cases = 0
    # targeted strings beyond the length bound: case variants / neighbours of the registered function name
    extra = ["Sgn(x)", "SGN(4)", "sGn", "sgn(x)", "sgnx", "xsgn", "sgnsgn(2)", "sgn sgn", "2SGN(4)+1", "s g n", "4x +\r\n2y", " \t\n ", "12.5.3", "..", "x–y", "[x]"]
    # long runs (a window or buffer size in the tokenizer would cut them)
    extra += ["1" * 33, "7" * 100 + ".5", "1" * 32 + ".5", "a" * 32 + "sgn", "x" * 70, "sgn" * 20, " " * 50 + "x", "1" * 31 + " " + "2" * 40, "(" * 64 + "x" + ")" * 64, "12.5" * 30,
              "x" * 31 + "sgn(1)", "4" + "x" * 200 + "+" + "1" * 200]
    for s in extra:
        for keep in (False, True):
            cases += 1
            want = reference(s, keep)
            try:
                got = [(t.type, t.value) for t in Tokenizer(exclude_padding=not keep).tokenize(s)]
            except ValueError:
                got = "ValueError"
            except Exception as e:  # noqa: BLE001
                got = type(e).__name__
            if got != want:
                fails.append({"clause": "tokens-as-specified", "detail": f"{s!r} (padding {'kept' if keep else 'dropped'}): got {str(got)[:160]} expected {str(want)[:160]}"})
    for n in range(0, maxlen + 1):
        for chars in itertools.product(ALPHABET, repeat=n):
            s = "".join(chars)
            for keep in (False, True):
                cases += 1
                want = reference(s, keep)
                try:
                    toks = Tokenizer(exclude_padding=not keep).tokenize(s)
                    got = [(t.type, t.value) for t in toks]
                except ValueError:
                    got = "ValueError"
                except Exception as e:  # noqa: BLE001
                    got = f"{type(e).__name__}"
                if got != want:
                    fails.append({"clause": "tokens-as-specified", "detail": f"{s!r} (padding {'kept' if keep else 'dropped'}): got {str(got)[:160]} expected {str(want)[:160]}"})
                    continue
                if got != "ValueError" and keep:
                    norm = "".join(NORM.get(c, c) for c in s)
                    if "".join(v for _, v in got) != norm:
                        fails.append({"clause": "lossless", "detail": f"{s!r}: concatenation {''.join(v for _, v in got)!r}"})
    seen = {}
    for f in fails:
        seen.setdefault((f["clause"], f["detail"][:30]), f)
    print(json.dumps({"cases": cases, "max_chars": maxlen, "alphabet": ALPHABET, "failures": list(seen.values())[:40], "n_failures": len(fails)}))
    sys.exit(1 if fails else 0)


if __name__ == "__main__":
    main()
