"""Bounded stand-in for C13: all trees up to N nodes built through the public constructors
(one-operand nodes with the operand on either side), clone() and clone_from_root() via every node."""
from __future__ import annotations

import json
import sys

from treelib import E, kind, path_of, at_path  # type: ignore

import numpy as np  # noqa: E402

# constants as the parser makes them and as rewrites leave them (numpy scalars)
LEAVES = [("c", 2), ("c", -0.5), ("v", "x")]
NP_LEAVES = [("c", np.int64(8)), ("c", np.float64(0.25)), ("v", "y")]
UN = ["NegateExpression", "FactorialExpression", "AbsExpression", "SgnExpression"]
BIN = ["EqualExpression", "AddExpression", "SubtractExpression", "MultiplyExpression", "DivideExpression", "PowerExpression"]


def gen(n, leaves=None):
    leaves = leaves or LEAVES
    if n == 1:
        for t in leaves:
            yield t
        return
    for k in UN:
        for c in gen(n - 1, leaves):
            yield (k, c, False)
            yield (k, c, True)
    for nl in range(1, n - 1):
        for k in BIN:
            for l in gen(nl, leaves):
                for r in gen(n - 1 - nl, leaves):
                    yield (k, l, r)


def realise(t):
    if t[0] == "c":
        return E.ConstantExpression(t[1])
    if t[0] == "v":
        return E.VariableExpression(t[1])
    if t[0] in UN:
        return getattr(E, t[0])(realise(t[1]), t[2])
    return getattr(E, t[0])(realise(t[1]), realise(t[2]))


def nodes(n, out=None):
    if out is None:
        out = []
    if n is None:
        return out
    out.append(n)
    nodes(n.left, out)
    nodes(n.right, out)
    return out


def iso(a, b, ids_a, problems, where=""):
    if (a is None) != (b is None):
        problems.append(f"{where}: child presence differs")
        return
    if a is None:
        return
    if id(b) in ids_a:
        problems.append(f"{where}: node object shared with the original")
    if kind(a) != kind(b):
        problems.append(f"{where}: kind {kind(a)} vs {kind(b)}")
        return
    if a.id != b.id:
        problems.append(f"{where}: id differs")
    if kind(a) == "ConstantExpression" and (a.value != b.value or type(a.value) is not type(b.value)):
        problems.append(f"{where}: constant {a.value!r} vs {b.value!r}")
    if kind(a) == "VariableExpression" and a.identifier != b.identifier:
        problems.append(f"{where}: identifier")
    if hasattr(a, "child_on_left") and a.child_on_left != b.child_on_left:
        problems.append(f"{where}: operand side child_on_left {a.child_on_left} vs {b.child_on_left}")
    if b.left is not None and b.left.parent is not b or b.right is not None and b.right.parent is not b:
        problems.append(f"{where}: parent link of copy inconsistent")
    iso(a.left, b.left, ids_a, problems, where + "L")
    iso(a.right, b.right, ids_a, problems, where + "R")


def behaviour(a):
    out = []
    try:
        out.append(("str", str(a)))
    except Exception as e:  # noqa: BLE001
        out.append(("str", type(e).__name__))
    # deterministic cut-off (no timers): values that are astronomically large are not evaluated - a factorial
    # of anything but a leaf, or a factorial anywhere inside an exponent (3 ** 720! never finishes)
    def heavy(n, in_exp=False):
        if n is None:
            return False
        k = kind(n)
        if k == "FactorialExpression":
            c = n.get_child()
            if in_exp or (c is not None and kind(c) not in ("ConstantExpression", "VariableExpression")):
                return True
        if k == "PowerExpression":
            return heavy(n.left, in_exp) or heavy(n.right, True)
        return heavy(n.left, in_exp) or heavy(n.right, in_exp)

    if heavy(a):
        out.append(("val", "not evaluated (astronomically large)"))
        return out
    try:
        v = a.evaluate({"x": 3})
        out.append(("val", repr(v)))
    except Exception as e:  # noqa: BLE001
        out.append(("val", type(e).__name__))
    return out


def work_chunk(args):
    """Share k of K of the enumeration: every worker enumerates the descriptions itself (nothing is pickled)."""
    import itertools

    k, K, maxn = args
    fails = []
    cases = 0
    everything = itertools.chain(
        (t for n in range(1, maxn + 1) for t in gen(n)),
        (t for n in range(1, min(maxn, 3) + 1) for t in gen(n, NP_LEAVES)),
    )
    for idx, t in enumerate(everything):
        if idx % K != k:
            continue
        root = realise(t)
        orig_nodes = nodes(root)
        ids = {id(x) for x in orig_nodes}
        try:
            c = root.clone()
        except Exception as e:  # noqa: BLE001
            fails.append({"clause": "clone/identical-independent", "detail": f"clone() raised {type(e).__name__}: {str(e)[:80]} on {t}"})
            continue
        cases += 1
        probs = []
        iso(root, c, ids, probs)
        if c.parent is not None:
            probs.append("clone has a parent")
        if not probs and behaviour(root) != behaviour(c):
            probs.append(f"behaviour differs {behaviour(root)} vs {behaviour(c)}")
        for pr in probs[:2]:
            fails.append({"clause": "clone/identical-independent", "detail": f"{pr} on {t}"})
        # clone_from_root via every node
        for x in orig_nodes:
            p = path_of(x)
            try:
                y = x.clone_from_root()
            except Exception as e:  # noqa: BLE001
                fails.append({"clause": "clone_from_root/locates-node", "detail": f"clone_from_root() raised {type(e).__name__}: {str(e)[:80]} on {t} via {p}"})
                continue
            cases += 1
            r2 = y
            guard = 0
            while r2.parent is not None and guard < 50:
                r2 = r2.parent
                guard += 1
            pr2 = []
            iso(root, r2, ids, pr2)
            try:
                located = at_path(r2, p)
            except AttributeError:
                located = None
            if located is not y:
                pr2.append(f"returned node is not at path '{p}' of the copy")
            if x.cloned_node is not None or x.cloned_target is not None:
                pr2.append("bookkeeping not reset")
            for pr in pr2[:2]:
                fails.append({"clause": "clone_from_root/locates-node", "detail": f"{pr} on {t} via {p}"})
        # independence: edit the copy
        for y in nodes(c):
            if kind(y) == "ConstantExpression":
                y.value = 99
        if any(kind(x) == "ConstantExpression" and x.value == 99 for x in orig_nodes):
            fails.append({"clause": "clone/identical-independent", "detail": f"editing the copy changed the original on {t}"})
        # re-use: the nodes were queried above (get_root / clone_from_root); now they are put under a new root the
        # way rewrites and the constructors do, and every answer must be about the tree as it is NOW
        if root.left is not None and root.right is not None and kind(root) != "EqualExpression":
            try:
                left, right = root.left, root.right
                new_root = E.AddExpression(left, E.NegateExpression(right))
                for x in nodes(new_root):
                    if x.get_root() is not new_root:
                        fails.append({"clause": "clone_from_root/locates-node", "detail": f"get_root() of a re-used node answers for the tree it used to be in on {t}"})
                        break
                    y = x.clone_from_root()
                    r2 = y
                    guard = 0
                    while r2.parent is not None and guard < 50:
                        r2 = r2.parent
                        guard += 1
                    pr3 = []
                    iso(new_root, r2, {id(z) for z in nodes(new_root)}, pr3)
                    if pr3 or at_path(r2, path_of(x)) is not y:
                        fails.append({"clause": "clone_from_root/locates-node", "detail": f"after re-using the operands of the root under a new root, clone_from_root copies another tree / position ({(pr3 or ['position'])[0]}) on {t}"})
                        break
            except Exception as e:  # noqa: BLE001
                fails.append({"clause": "clone_from_root/locates-node", "detail": f"re-use scenario raised {type(e).__name__}: {str(e)[:80]} on {t}"})

    return cases, fails


def main():
    maxn = int(sys.argv[1])
    import multiprocessing as mp

    K = 64
    fails = []
    cases = 0
    with mp.get_context("fork").Pool(16) as pool:
        for c, f in pool.imap_unordered(work_chunk, [(k, K, maxn) for k in range(K)]):
            cases += c
            fails += f
    # de-duplicate by clause + first words
    seen = {}
    for f in fails:
        key = (f["clause"], f["detail"].split(" on ")[0])
        seen.setdefault(key, f)
        seen[key]["count"] = seen[key].get("count", 0) + 1
    print(json.dumps({"cases": cases, "max_nodes": maxn, "failures": list(seen.values())[:30], "n_failures": len(fails)}))
    sys.exit(1 if fails else 0)


if __name__ == "__main__":
    main()
