"""Bounded stand-in for C17: every generator x a grid of parameter settings x both number modes x a
range of seeds; each output goes through the real parser and an independent like-terms oracle."""
from __future__ import annotations

import itertools
import json
import multiprocessing as mp
import os
import random
import sys

from treelib import E, REPO, kind  # type: ignore  # noqa: F401

from mathy_core import problems as P
from mathy_core.parser import ExpressionParser


def term_key(n):
    """(variables with exponents) of one addend, ignoring its numeric coefficient; None if not a plain term."""
    k = kind(n)
    if k == "NegateExpression":
        return term_key(n.get_child())
    if k == "ConstantExpression":
        return ("const",)
    if k == "VariableExpression":
        return ((n.identifier, 1),)
    if k == "PowerExpression" and kind(n.left) == "VariableExpression" and kind(n.right) == "ConstantExpression":
        return ((n.left.identifier, n.right.value),)
    if k == "MultiplyExpression":
        a, b = term_key(n.left), term_key(n.right)
        if a is None or b is None:
            return None
        if a == ("const",):
            return b
        if b == ("const",):
            return a
        return tuple(sorted(a + b, key=str))
    return None


def addends(n, out=None):
    if out is None:
        out = []
    if kind(n) in ("AddExpression", "SubtractExpression"):
        addends(n.left, out)
        addends(n.right, out)
    else:
        out.append(n)
    return out


def has_like_terms_oracle(root) -> bool:
    seen = set()
    for t in addends(root):
        k = term_key(t)
        if k is None:
            continue
        if k in seen:
            return True
        seen.add(k)
    return False


def settings():
    yield ("gen_binomial_times_binomial", {}, False)
    yield ("gen_binomial_times_binomial", {"simple_variables": False, "powers_probability": 1.0, "like_variables_probability": 0.0, "max_vars": 3}, False)
    yield ("gen_binomial_times_monomial", {}, False)
    yield ("gen_binomial_times_monomial", {"simple_variables": False, "powers_probability": 1.0, "like_variables_probability": 0.5, "max_vars": 3}, False)
    for nt in (2, 3, 4, 7):
        # the promise of like terms concerns sums whose terms all carry their variable
        yield ("gen_simplify_multiple_terms", {"num_terms": nt}, False)
        yield ("gen_simplify_multiple_terms", {"num_terms": nt, "op": "+"}, True)
        yield ("gen_simplify_multiple_terms", {"num_terms": nt, "op": ["+", "-"], "powers_probability": 0.9, "share_var_probability": 1.0, "noise_probability": 0.3}, True)
        yield ("gen_simplify_multiple_terms", {"num_terms": nt, "optional_var": True, "op": ["+", "-"], "powers_probability": 0.9, "noise_probability": 0.5, "share_var_probability": 1.0}, False)
        yield ("gen_simplify_multiple_terms", {"num_terms": nt, "optional_var": True, "optional_var_probability": 0.2, "noise_terms": 3}, False)
    yield ("gen_combine_terms_in_place", {}, True)
    yield ("gen_combine_terms_in_place", {"min_terms": 3, "max_terms": 8, "easy": False, "powers": True}, True)
    yield ("gen_commute_haystack", {}, True)
    yield ("gen_commute_haystack", {"min_terms": 3, "max_terms": 6, "commute_blockers": 2, "easy": False, "powers": True}, True)
    for mt, cb in ((3, 1), (3, 2), (3, 3), (2, 1), (4, 3), (5, 4)):
        yield ("gen_commute_haystack", {"min_terms": mt, "max_terms": mt, "commute_blockers": cb}, True)
    yield ("gen_combine_terms_in_place", {"min_terms": 2, "max_terms": 3}, True)
    for nb in (1, 2, 4):
        yield ("gen_move_around_blockers_one", {"number_blockers": nb}, True)
        yield ("gen_move_around_blockers_one", {"number_blockers": nb, "powers_probability": 1.0}, True)
        yield ("gen_move_around_blockers_two", {"number_blockers": nb}, True)
        yield ("gen_move_around_blockers_two", {"number_blockers": nb, "powers_probability": 1.0}, True)


def work(args):
    name, kw, promises_like, pretty, seeds = args
    fails = []
    n = 0
    gen = getattr(P, name)
    P.use_pretty_numbers(pretty)
    for s in seeds:
        random.seed(s)
        n += 1
        where = f"{name}({kw}) pretty={pretty} seed={s}"
        try:
            text, cx = gen(**kw)
        except Exception as e:  # noqa: BLE001
            fails.append({"clause": "generator-returns", "detail": f"{where}: raised {type(e).__name__}: {e}"[:300]})
            continue
        if not (isinstance(cx, int) and cx > 0):
            fails.append({"clause": "positive-complexity", "detail": f"{where}: complexity {cx!r} for `{text}`"})
        try:
            tree = ExpressionParser().parse(text)
        except Exception as e:  # noqa: BLE001
            fails.append({"clause": "text-parses", "detail": f"{where}: `{text}` rejected ({type(e).__name__})"})
            continue
        if promises_like and not has_like_terms_oracle(tree):
            fails.append({"clause": "promised-like-terms-present", "detail": f"{where}: `{text}` has no pair of like terms"})
    P.use_pretty_numbers(True)
    return n, fails


def helpers(nseeds):
    fails = []
    n = 0
    for s in range(nseeds):
        random.seed(s)
        # term templates: distinct (variable, exponent) pairs that respect the exclusions
        for k, common, prob, excl in ((3, False, 0.5, None), (2, True, 1.0, [P.MathyTermTemplate("x", 2)]), (3, True, 1.0, None), (4, False, 1.0, [P.MathyTermTemplate("a", 2), P.MathyTermTemplate("b", None)])):
            n += 1
            try:
                ts = P.get_rand_term_templates(k, exclude_like=excl, common_variables=common, exponent_probability=prob)
            except EnvironmentError:
                continue
            keys = [(t.variable, t.exponent) for t in ts]
            ex = [(t.variable, t.exponent) for t in (excl or [])]
            if len(ts) != k or len(set(keys)) != k or any(kk in ex for kk in keys):
                fails.append({"clause": "requested-term-templates", "detail": f"get_rand_term_templates({k}, exclude={ex}, common={common}, p={prob}) seed={s} -> {keys}"})
        for v in (0, 1, 2, 5, 8, 17):
            n += 1
            lo, hi = P.split_in_two_random(v)
            if lo + hi != v or not (0 <= lo <= hi):
                fails.append({"clause": "split-sums-to-input", "detail": f"split_in_two_random({v}) seed={s} -> {(lo, hi)}"})
        for k, ex, common in ((3, None, False), (5, ["x", "y"], False), (2, ["x"], True), (23, ["q"], False), (24, None, False)):
            n += 1
            try:
                vs = P.get_rand_vars(k, ex, common)
            except ValueError as e:
                fails.append({"clause": "requested-variables", "detail": f"get_rand_vars({k},{ex},{common}) seed={s} raised {e}"})
                continue
            if len(vs) != k or len(set(vs)) != k or any(v in (ex or []) for v in vs):
                fails.append({"clause": "requested-variables", "detail": f"get_rand_vars({k},{ex},{common}) seed={s} -> {vs}"})
    return n, fails


def main():
    nseeds = int(sys.argv[1])
    base = int(os.environ.get("VERIF_SEED", "0")) * 100000
    tasks = []
    for name, kw, like in settings():
        for pretty in (True, False):
            for chunk in range(0, nseeds, 250):
                tasks.append((name, kw, like, pretty, list(range(base + chunk, base + min(nseeds, chunk + 250)))))
    total = 0
    fails = []
    with mp.get_context("fork").Pool(16) as pool:
        for n, f in pool.imap_unordered(work, tasks):
            total += n
            fails += f
    n, f = helpers(min(nseeds, 300))
    total += n
    fails += f
    seen = {}
    for f in fails:
        key = (f["clause"], f["detail"].split(" pretty=")[0][:80])
        seen.setdefault(key, f)
        seen[key]["count"] = seen[key].get("count", 0) + 1
    print(json.dumps({"runs": total, "seeds_per_setting": nseeds, "settings": len(list(settings())), "failures": list(seen.values())[:40], "n_failures": len(fails)}))
    sys.exit(1 if fails else 0)


if __name__ == "__main__":
    main()
