"""Bounded stand-in for tree.py / expressions.py structural contracts (C13, C14, C15): all binary
tree shapes up to N nodes (0 / left-only / right-only / 2 children)."""
from __future__ import annotations

import json
import os
import sys
from typing import Any, List, Optional

REPO = os.environ.get("PYVC_REPO", "/repo")
sys.path.insert(0, REPO)

from mathy_core.tree import STOP, BinaryTreeNode  # noqa: E402


def shapes(n: int):
    """All shapes with exactly n nodes as nested tuples (left, right) / None."""
    if n == 0:
        yield None
        return
    for nl in range(0, n):
        for l in shapes(nl):
            for r in shapes(n - 1 - nl):
                yield (l, r)


class NodeA(BinaryTreeNode):
    pass


class NodeB(BinaryTreeNode):
    pass


def build(shape, cls=None, depth=0):
    """Nodes of three different classes (by depth) so that class-dependent code is exercised."""
    if shape is None:
        return None
    n = (cls or (BinaryTreeNode, NodeA, NodeB)[depth % 3])()
    l, r = build(shape[0], cls, depth + 1), build(shape[1], cls, depth + 1)
    if l is not None:
        n.set_left(l)
    if r is not None:
        n.set_right(r)
    return n


def ref_order(n, order, depth=0, out=None):
    if out is None:
        out = []
    if n is None:
        return out
    if order == "pre":
        out.append((n, depth))
    ref_order(n.left, order, depth + 1, out)
    if order == "in":
        out.append((n, depth))
    ref_order(n.right, order, depth + 1, out)
    if order == "post":
        out.append((n, depth))
    return out


def links_ok(root) -> Optional[str]:
    seen = set()

    def visit(n, parent):
        if id(n) in seen:
            return "node reachable twice"
        seen.add(id(n))
        if n.parent is not parent:
            return "parent link inconsistent"
        for c in (n.left, n.right):
            if c is not None:
                r = visit(c, n)
                if r:
                    return r
        return None

    return visit(root, None)


def check_rotate(maxn):
    fails = []
    cases = 0
    for n in range(1, maxn + 1):
        for sh in shapes(n):
            count = n
            for i in range(count):
                root = build(sh)
                nodes = [x for x, _ in ref_order(root, "in")]
                node = nodes[i]
                before = list(nodes)
                parent, gp = node.parent, node.parent.parent if node.parent else None
                gp_side = None if gp is None else ("left" if gp.left is parent else "right")
                ret = node.rotate()
                cases += 1
                top = node
                guard = 0
                while top.parent is not None and guard < 100:
                    top = top.parent
                    guard += 1
                after = [x for x, _ in ref_order(top, "in")]
                problem = None
                if ret is not node:
                    problem = "does not return self"
                elif [id(x) for x in after] != [id(x) for x in before]:
                    problem = "in-order sequence changed"
                elif links_ok(top):
                    problem = links_ok(top)
                elif parent is not None and node.parent is not gp:
                    problem = "node.parent is not the grand-parent"
                elif gp is not None and getattr(gp, gp_side) is not node:
                    problem = "grand-parent does not point at the rotated node"
                elif parent is not None and parent.parent is not node:
                    problem = "parent not below node"
                if problem:
                    fails.append({"shape": repr(sh), "node_inorder_index": i, "problem": problem})
    return {"cases": cases, "max_nodes": maxn, "failures": fails[:20], "n_failures": len(fails)}


def check_traversals(maxn):
    fails = []
    cases = 0
    for n in range(1, maxn + 1):
        for sh in shapes(n):
            for order, meth in (("pre", "visit_preorder"), ("in", "visit_inorder"), ("post", "visit_postorder")):
                root = build(sh)
                ref = ref_order(root, order)
                for stop_at in list(range(len(ref))) + [None]:
                    log = []

                    def fn(node, depth, data, log=log, stop_at=stop_at):
                        log.append((node, depth))
                        if stop_at is not None and len(log) - 1 == stop_at:
                            return STOP
                        return None

                    ret = getattr(root, meth)(fn)
                    cases += 1
                    exp = ref if stop_at is None else ref[: stop_at + 1]
                    ok = [(id(a), d) for a, d in log] == [(id(a), d) for a, d in exp] and (ret == STOP) == (stop_at is not None)
                    if not ok:
                        fails.append({"shape": repr(sh), "order": order, "stop_at": stop_at, "problem": "wrong visit sequence / depths / stop"})
            # look-ups
            root = build(sh)
            nodes = [x for x, _ in ref_order(root, "pre")]
            for x in nodes:
                cases += 1
                prob = None
                if x.get_root() is not root:
                    prob = "get_root"
                ch = [c for c in (x.left, x.right) if c is not None]
                if [id(c) for c in x.get_children()] != [id(c) for c in ch]:
                    prob = "get_children"
                if x.is_leaf() != (not ch):
                    prob = "is_leaf"
                if x.parent is not None:
                    p = x.parent
                    side = "left" if p.left is x else "right"
                    if p.get_side(x) != side:
                        prob = "get_side"
                    sib = p.right if side == "left" else p.left
                    if x.get_sibling() is not sib:
                        prob = "get_sibling"
                    # root side
                    y = x
                    while y.parent is not root:
                        y = y.parent
                    rs = "left" if root.left is y else "right"
                    if x.get_root_side() != rs:
                        prob = "get_root_side"
                else:
                    if x.get_sibling() is not None:
                        prob = "get_sibling(root)"
                if prob:
                    fails.append({"shape": repr(sh), "problem": prob})
            # the same nodes under a new root (after the queries above): answers are about the tree as it is now
            top = type(root)()
            top.set_left(root)
            for x in nodes:
                cases += 1
                if x.get_root() is not top:
                    fails.append({"shape": repr(sh), "problem": "get_root after the tree was put under a new root"})
                    break
                if x.get_root_side() != "left":
                    fails.append({"shape": repr(sh), "problem": "get_root_side after the tree was put under a new root"})
                    break
            # a subtree is taken over by a new root while the old root is simply abandoned (what rewrites do)
            root = build(sh)
            nodes = [x for x, _ in ref_order(root, "pre")]
            for x in nodes:
                x.get_root()
            sub = root.left if root.left is not None else root.right
            if sub is not None:
                top = type(root)()
                top.set_right(sub)
                for x, _ in ref_order(sub, "pre"):
                    cases += 1
                    if x.get_root() is not top or x.get_root_side() != "right":
                        fails.append({"shape": repr(sh), "problem": "get_root / get_root_side of a subtree taken over by a new root"})
                        break
    # look-ups of expression nodes started at EVERY node (not only the root): find_id / find_type / to_list
    # answer for the receiver's subtree only
    from treelib import E, gen_trees, realise  # type: ignore

    def sub_in(n, out):
        if n is None:
            return out
        sub_in(n.left, out)
        out.append(n)
        sub_in(n.right, out)
        return out

    for n in range(1, min(maxn, 4) + 1):
        for t in gen_trees(n):
            root = realise(t)
            everything = sub_in(root, [])
            for x in everything:
                mine = sub_in(x, [])
                cases += 1
                for y in everything:
                    got = x.find_id(y.id)
                    want = y if any(z is y for z in mine) else None
                    if got is not want:
                        fails.append({"shape": str(root), "problem": f"find_id from `{x}` for the id of `{y}` returned `{got}`"})
                        break
                if [id(z) for z in x.find_type(E.MathExpression)] != [id(z) for z in mine]:
                    fails.append({"shape": str(root), "problem": f"find_type from `{x}` is not the in-order list of its subtree"})
                if sorted(id(z) for z in x.to_list()) != sorted(id(z) for z in mine):
                    fails.append({"shape": str(root), "problem": f"to_list from `{x}` is not its subtree"})
    return {"cases": cases, "max_nodes": maxn, "failures": fails[:20], "n_failures": len(fails)}


def main():
    what, n = sys.argv[1], int(sys.argv[2])
    if what == "rotate":
        out = check_rotate(n)
    elif what == "traversals":
        out = check_traversals(n)
    else:
        raise SystemExit("unknown")
    print(json.dumps(out))
    sys.exit(1 if out["n_failures"] else 0)


if __name__ == "__main__":
    main()
