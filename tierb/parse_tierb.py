"""Bounded stand-ins on the real tokenizer + parser (C03, C10, C12)."""
from __future__ import annotations

import itertools
import json
import math
import os
import random
import sys
from fractions import Fraction

from treelib import E, REPO, Undefined, close, exact_eval, kind  # type: ignore

sys.path.insert(0, os.path.dirname(os.path.dirname(os.path.abspath(__file__))))
from contracts.grammar import has_division_chain, spec_parse  # noqa: E402

from mathy_core.parser import ExpressionParser, ParserException  # noqa: E402
from mathy_core.tokenizer import Tokenizer  # noqa: E402

NAMES = ["Constant", "Variable", "Plus", "Minus", "Multiply", "Divide", "Exponent", "Factorial", "OpenParen", "CloseParen", "Function", "Equal"]
TEXT = {"Plus": "+", "Minus": "-", "Multiply": "*", "Divide": "/", "Exponent": "^", "Factorial": "!", "OpenParen": "(", "CloseParen": ")", "Function": "sgn", "Equal": "="}
CONSTS = ["2", "3", "0.5", "4", "7", "1.5", "9007199254740993", "12345678901234567890123"]
VARS = list("xyzabc")
ENV = {"x": Fraction(3), "y": Fraction(2), "z": Fraction(5), "a": Fraction(-1, 2), "b": Fraction(7), "c": Fraction(1, 3)}


def realise(seq, sep=" "):
    out, vals = [], {}
    ci = vi = 0
    prev = None
    for i, t in enumerate(seq):
        if t == "Constant":
            s = CONSTS[ci % len(CONSTS)]
            ci += 1
            vals[i] = Fraction(s)
            # two adjacent literals / letters must stay separate tokens
            out.append((" " if prev == "Constant" and sep == "" else "") + s)
        elif t == "Variable":
            s = VARS[vi % len(VARS)]
            vi += 1
            vals[i] = s
            # a letter directly after a function name would change the letter run
            out.append((" " if prev == "Function" and sep == "" else "") + s)
        elif t == "Function":
            out.append((" " if prev in ("Variable", "Function") and sep == "" else "") + "sgn")
        else:
            out.append(TEXT[t])
        prev = t
    return sep.join(out), vals


def spec_value(t, vals, env=None):
    env = env if env is not None else ENV
    tag = t[0]
    if tag == "c":
        return vals[t[1]] * t[2]
    if tag == "v":
        return env[vals[t[1]]]
    if tag == "neg":
        return -spec_value(t[1], vals, env)
    if tag == "fact":
        a = spec_value(t[1], vals, env)
        if a.denominator != 1 or a < 0 or a > 50:
            raise Undefined("fact")
        return Fraction(math.factorial(int(a)))
    if tag == "fn":
        a = spec_value(t[1], vals, env)
        return Fraction((a > 0) - (a < 0))
    a, b = spec_value(t[1], vals, env), spec_value(t[2], vals, env)
    if tag == "+":
        return a + b
    if tag == "-":
        return a - b
    if tag == "*":
        return a * b
    if tag == "/":
        if b == 0:
            raise Undefined("div0")
        return a / b
    if tag == "^":
        from treelib import exact_pow

        return exact_pow(a, b)
    if tag == "=":
        return ("eq", a, b)
    raise ValueError(tag)


def gen_sentence(rng, depth=0):
    """Random sentence of the reference grammar as a token-type list."""

    def add(d):
        out = mult(d)
        while rng.random() < 0.35 and len(out) < 14:
            out += [rng.choice(["Plus", "Minus"])] + mult(d)
        return out

    def mult(d):
        out = exp(d)
        while rng.random() < 0.3 and len(out) < 14:
            out += [rng.choice(["Multiply", "Divide"])] + exp(d)
        return out

    def exp(d):
        out = unary(d)
        if rng.random() < 0.25:
            out += ["Exponent"] + unary(d)
        return out

    def unary(d):
        r = rng.random()
        neg = ["Minus"] if rng.random() < 0.2 else []
        if r < 0.3:
            return neg + ["Constant"] + (["Factorial"] if rng.random() < 0.1 else [])
        if r < 0.55:
            return neg + ["Constant"] + factors(d)
        return neg + factors(d)

    def factors(d):
        out = []
        for _ in range(rng.choice([1, 1, 1, 2, 3])):
            out += atom(d)
        if rng.random() < 0.25:
            out += ["Exponent"] + unary(d + 1)
        return out

    def atom(d):
        r = rng.random()
        if r < 0.7 or d > 2:
            return ["Variable"]
        if r < 0.8:
            return ["Function", "OpenParen"] + add(d + 1) + ["CloseParen"]
        return ["OpenParen"] + add(d + 1) + ["CloseParen"]

    out = add(depth)
    if rng.random() < 0.15:
        out += ["Equal"] + add(depth)
    return out


def check_c03(tier, seed):
    fails = []
    cases = 0
    seqs = []
    for n in range(1, 5):
        seqs += list(itertools.product(NAMES, repeat=n))
    rng = random.Random(seed)
    nrand = 4000 if tier == "quick" else 40000
    rnd = [tuple(gen_sentence(rng)) for _ in range(nrand)]
    shared = ExpressionParser()  # one long-lived parser for the whole sweep: results must not depend on history
    for seq in seqs + rnd:
        if len(seq) > 16:
            continue
        spec = spec_parse(list(seq))
        # the text with all separating spaces removed (it may tokenize differently): the long-lived
        # parser must treat it exactly like a fresh one, and it must not influence the spaced texts
        merged = realise(seq, " ")[0].replace(" ", "")
        cases += 1

        def _out(p, s):
            try:
                return ("tree", tree_sig(p.parse(s)))
            except Exception as e:  # noqa: BLE001
                return ("raise", type(e).__name__)

        if _out(shared, merged) != _out(ExpressionParser(), merged):
            fails.append({"clause": "accepts-exactly-the-grammar", "detail": f"`{merged}` is read differently by a parser that has parsed other strings before"})
        for sep in (" ", ""):
            text, vals = realise(seq, sep)
            cases += 1
            try:
                tree = shared.parse(text)
                err = None
            except ParserException as e:
                tree, err = None, type(e).__name__
            except ValueError as e:
                tree, err = None, "ValueError"
            except Exception as e:  # noqa: BLE001
                fails.append({"clause": "closed-error-contract", "detail": f"`{text}` raised {type(e).__name__}: {e}"})
                continue
            if (tree is None) != (spec is None):
                fails.append({"clause": "accepts-exactly-the-grammar", "detail": f"`{text}` " + ("accepted" if tree is not None else f"rejected ({err})") + " but the documented grammar says otherwise"})
                continue
            if tree is None:
                continue
            try:
                want = spec_value(spec, vals)
            except (Undefined, OverflowError, ZeroDivisionError):
                continue
            try:
                got = exact_eval(tree, ENV)
            except (Undefined, OverflowError, ZeroDivisionError):
                got = None
            ok = got is not None and ((isinstance(want, tuple) and isinstance(got, tuple) and close(want[1], got[1]) and close(want[2], got[2])) or (not isinstance(want, tuple) and not isinstance(got, tuple) and close(want, got)))
            if not ok:
                tag = ""
                if has_division_chain(spec):
                    # known finding only if the value is exactly what folding the chain from the right gives
                    try:
                        alt = spec_value(spec_parse(list(seq), mult_assoc="right"), vals)
                        same = got is not None and (
                            (isinstance(alt, tuple) and isinstance(got, tuple) and close(alt[1], got[1]) and close(alt[2], got[2]))
                            or (not isinstance(alt, tuple) and not isinstance(got, tuple) and close(alt, got))
                        )
                        tag = "right-fold-variant " if same else ""
                    except (Undefined, OverflowError, ZeroDivisionError):
                        tag = ""
                fails.append({"clause": "value-as-grammar-prescribes", "detail": f"{tag}`{text}` evaluates to {got if got is None or isinstance(got, tuple) else float(got)} but the grammar prescribes {want if isinstance(want, tuple) else float(want)}"})
    seen = {}
    for f in fails:
        seen.setdefault((f["clause"], f["detail"][:40]), f)
    return {"cases": cases, "exhaustive_up_to_tokens": 4, "random_sentences": nrand, "failures": list(seen.values())[:60], "n_failures": len(fails)}


ALPHABET = ["1", "2", ".", "x", "y", "+", "-", "*", "/", "^", "!", "=", "(", ")", " ", "s", "g", "n", "$"]
TARGETED = ["Sgn(x)", "SGN(4)", "2SGN(4) + 1", "-SGN(1) / SGN(2)", "sGn(x)", "sgn(sgn(x))", "sgn()", "sgn(", "x!", "3!!", "2^", "^2", "(((((x)))))", "((x)", "1.2.3", "1..2", ".", "4x + 2 ", " ", "", "x = ", "= x", "x = y = z", "9007199254740993 - 9007199254740992", "1" * 400, "(" * 30, "(" * 30 + "x", "sgn" * 5]
ALLOWED = (ParserException, ValueError)


def check_c10(tier, seed):
    fails = []
    cases = 0
    maxlen = 4 if tier == "quick" else 5
    P = ExpressionParser()
    failing, ok = [], []
    for n in range(0, maxlen + 1):
        for chars in itertools.product(ALPHABET, repeat=n):
            s = "".join(chars)
            cases += 1
            try:
                t = P.parse(s)
                if not isinstance(t, E.MathExpression):
                    fails.append({"clause": "returns-a-tree", "detail": f"`{s}` returned {t!r}"})
                if len(ok) < 400 and n >= 3:
                    ok.append(s)
            except ALLOWED:
                if len(failing) < 400 and n >= 2 and cases % 7 == 0:
                    failing.append(s)
            except Exception as e:  # noqa: BLE001
                fails.append({"clause": "closed-error-contract", "detail": f"`{s}` raised {type(e).__name__}: {e}"})
    for s in TARGETED:
        cases += 1
        try:
            t = ExpressionParser().parse(s)
            if not isinstance(t, E.MathExpression):
                fails.append({"clause": "returns-a-tree", "detail": f"`{s[:40]}` returned {t!r}"})
        except ALLOWED:
            pass
        except Exception as e:  # noqa: BLE001
            fails.append({"clause": "closed-error-contract", "detail": f"`{s[:40]}` raised {type(e).__name__}: {str(e)[:80]}"})
    # deep nesting (bounded) must not hit the recursion limit / internal errors
    for depth in (10, 50):
        s = "(" * depth + "x" + ")" * depth
        try:
            ExpressionParser().parse(s)
        except Exception as e:  # noqa: BLE001
            fails.append({"clause": "closed-error-contract", "detail": f"nesting depth {depth} raised {type(e).__name__}"})
    # long FLAT inputs (nesting depth 0 or 1): the stack must not grow with the length of an operator chain
    n = 1500 if tier == "quick" else 5000
    for label, s in (("product", " * ".join(["2"] * n)), ("quotient", " / ".join(["x"] * n)), ("mixed * /", " * 2 / ".join(["x"] * (n // 2))), ("sum", " + ".join(["2"] * n)),
                     ("difference", " - ".join(["y"] * n)), ("equation chain", " = ".join(["2"] * n)), ("implicit product", "x" * n), ("groups", "(2)" * n),
                     ("function calls", "sgn(1)" * n), ("terms", " + ".join(["4x^2"] * n)), ("minus signs", "-" * n + "x"), ("factorials", "2" + "!" * n), ("digits", "7" * n)):
        cases += 1
        try:
            ExpressionParser().parse(s)
        except ALLOWED:
            pass
        except BaseException as e:  # noqa: BLE001
            fails.append({"clause": "closed-error-contract", "detail": f"flat chain ({label}, {n} operands, no nesting) `{s[:24]}...` raised {type(e).__name__}"})
    # a failed parse leaves the parser usable: same behaviour as a fresh parser afterwards
    rng = random.Random(seed)
    rng.shuffle(failing)
    rng.shuffle(ok)

    def outcome(p, s):
        try:
            return ("tree", str(p.parse(s)))
        except Exception as e:  # noqa: BLE001
            return ("raise", type(e).__name__)

    for bad in failing[:120]:
        for good in (ok[:6] + failing[:6]):
            cases += 1
            p = ExpressionParser()
            first = outcome(p, bad)
            again = outcome(p, bad)
            after = outcome(p, good)
            fresh = outcome(ExpressionParser(), good)
            if again != first:
                fails.append({"clause": "no-sticky-state", "detail": f"parsing `{bad}` twice on one parser: {first} then {again}"})
            if after != fresh:
                fails.append({"clause": "no-sticky-state", "detail": f"after failing on `{bad}`, `{good}` gives {after}; a fresh parser gives {fresh}"})
    # a failed (or successful) parse followed by a string that differs only in white space: same as a fresh parser
    spaced = [s for s in failing + ok if " " in s.strip()][:400]
    for s in spaced + ["1 2", "2 .5x", "s gn(3)", "4 x", "x = 1 2"]:
        variants = {s.replace(" ", ""), " ".join(s.split()), s.replace(" ", "  ")} - {s}
        for other in variants:
            for first, second in ((s, other), (other, s)):
                cases += 1
                p = ExpressionParser()
                outcome(p, first)
                if outcome(p, second) != outcome(ExpressionParser(), second):
                    fails.append({"clause": "no-sticky-state", "detail": f"after parsing `{first}`, `{second}` gives {outcome(p, second)}; a fresh parser gives {outcome(ExpressionParser(), second)}"})
    # many failing parses on one parser (unclosed groups, dangling operators), then valid inputs not seen before
    p = ExpressionParser()
    for k in range(12):
        for bad in ("(" * 30 + f"x{'+' * (k % 3)}", f"{k}+", f"({k}x", f"{k} {k}"):
            outcome(p, bad)
    for good in ("(a + 1)", "2 * (b + (c + 3))", "sgn(d)", "((e))", "f^(g + 1)"):
        cases += 1
        if outcome(p, good) != outcome(ExpressionParser(), good):
            fails.append({"clause": "no-sticky-state", "detail": f"after many failed parses `{good}` gives {outcome(p, good)}; a fresh parser gives {outcome(ExpressionParser(), good)}"})
    seen = {}
    for f in fails:
        seen.setdefault((f["clause"], f["detail"][:50]), f)
    return {"cases": cases, "alphabet": ALPHABET, "max_chars": maxlen, "failures": list(seen.values())[:40], "n_failures": len(fails)}


def tok_sig(tokens):
    return [(t.type, t.value) for t in tokens]


def tree_sig(t):
    if t is None:
        return None
    return (kind(t), getattr(t, "value", None), getattr(t, "identifier", None), tree_sig(t.left), tree_sig(t.right))


def check_c12(tier, seed):
    """All call histories up to a length bound over a small universe of strings, then a query."""
    fails = []
    cases = 0
    # the last three fail inside the TOKENIZER, after some valid tokens (unsupported character / not first / last)
    universe = ["4x + 2", "4x  +  2", "sgn(x)", "s g n(x)", "s gn(x)", "42", "4 2", "4+", "(4x", "1.5x", "1 .5x", "x = 2", ")4+2", "2x^", "7y - $", "5b + # + 1", "$"]
    ops = [("parse", s) for s in universe] + [("tokenize", s) for s in universe] + [("clear", None)]
    hlen = 2 if tier == "quick" else 3

    def do(p, op, s):
        try:
            if op == "parse":
                return ("tree", tree_sig(p.parse(s)))
            if op == "tokenize":
                return ("tokens", tok_sig(p.tokenize(s)))
            p.clear_cache()
            return ("ok",)
        except Exception as e:  # noqa: BLE001
            return ("raise", type(e).__name__)

    fresh = {}
    for q in universe:
        fresh[("parse", q)] = do(ExpressionParser(), "parse", q)
        fresh[("tokenize", q)] = do(ExpressionParser(), "tokenize", q)
    for hist in itertools.product(ops, repeat=hlen):
        p = ExpressionParser()
        for op, s in hist:
            do(p, op, s)
        involved = {s for _, s in hist if s}
        for q in universe:
            if q not in involved and cases % 5:
                cases += 1
                continue
            for kind_ in ("parse", "tokenize"):
                cases += 1
                got = do(p, kind_, q)
                if got != fresh[(kind_, q)]:
                    fails.append({"clause": "history-independent", "detail": f"after {list(hist)}, {kind_}(`{q}`) gives {str(got)[:120]}; a fresh parser gives {str(fresh[(kind_, q)])[:120]}"})
    # long histories of failing parses (unclosed groups, dangling operators), with and without cache clearing
    for clear in (False, True):
        p = ExpressionParser()
        for k in range(40):
            for bad in ("((((x + ", "(" * 30 + f"x{k}", f"sgn(({k}", f"{k} * (", "$"):
                do(p, "parse", bad)
            if clear and k % 7 == 0:
                do(p, "clear", None)
        for q in universe + ["(a + 1)", "2 * (b + (c + 3))", "sgn(d)", "(" * 20 + "e" + ")" * 20, "f^(g + 1)"]:
            for kind_ in ("parse", "tokenize"):
                cases += 1
                got = do(p, kind_, q)
                want = do(ExpressionParser(), kind_, q)
                if got != want:
                    fails.append({"clause": "history-independent", "detail": f"after 200 failing parses{' and cache clearing' if clear else ''}, {kind_}(`{q}`) gives {str(got)[:100]}; a fresh parser gives {str(want)[:100]}"})
    # token lists handed out are independent copies
    for q in universe:
        p = ExpressionParser()
        r1 = do(p, "tokenize", q)
        if r1[0] != "tokens":
            continue
        lst = p.tokenize(q)
        while lst:
            lst.pop(0)
        lst2 = p.tokenize(q)
        lst2.append("junk")
        lst2[0] = None
        cases += 1
        if do(p, "tokenize", q) != r1 or do(p, "parse", q) != fresh[("parse", q)]:
            fails.append({"clause": "token-lists-are-independent-copies", "detail": f"editing a token list returned for `{q}` changed later calls"})
    seen = {}
    for f in fails:
        seen.setdefault((f["clause"], f["detail"][:60]), f)
    return {"cases": cases, "universe": universe, "history_length": hlen, "failures": list(seen.values())[:40], "n_failures": len(fails)}


def main():
    what = sys.argv[1]
    tier = sys.argv[2] if len(sys.argv) > 2 else "quick"
    seed = int(os.environ.get("VERIF_SEED", "0"))
    out = {"c03": check_c03, "c10": check_c10, "c12": check_c12}[what](tier, seed)
    print(json.dumps(out, default=str))
    sys.exit(1 if out["n_failures"] else 0)


if __name__ == "__main__":
    main()
