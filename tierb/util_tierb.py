"""Bounded stand-in for C16 on the real util functions."""
from __future__ import annotations

import itertools
import json
import sys
from fractions import Fraction

from treelib import E, ExpressionParser, close, exact_eval, gen_trees, kind, realise, Undefined  # type: ignore

from mathy_core import util as U

TERMS = ["x", "y", "2x", "-3x", "0.5y", "x^2", "4x^2", "-x", "-x^2", "7", "-2", "y^3", "2xy", "x * x", "2 * 3", "2^3", "-(3)", "4!", "x * y", "2x * 3"]


def groupings(items):
    """All binary Add trees over the items in order (as text with parentheses)."""
    if len(items) == 1:
        yield items[0]
        return
    for i in range(1, len(items)):
        for l in groupings(items[:i]):
            for r in groupings(items[i:]):
                yield f"({l} + {r})"


def check(tier):
    fails = []
    cases = 0
    parser = ExpressionParser()

    def P(t):
        return parser.parse(t).clone()

    # ---- terms_are_like: reflexive and symmetric
    nodes = [P(t) for t in TERMS]
    for a, ta in zip(nodes, TERMS):
        cases += 1
        try:
            if U.get_term(a) is not False and not U.terms_are_like(a, a):
                fails.append({"clause": "terms_are_like/reflexive", "detail": f"`{ta}` is not like itself"})
        except Exception as e:  # noqa: BLE001
            fails.append({"clause": "term-predicates-never-raise", "detail": f"terms_are_like(`{ta}`,`{ta}`) raised {type(e).__name__}"})
    for (a, ta), (b, tb) in itertools.combinations(zip(nodes, TERMS), 2):
        cases += 1
        try:
            if U.terms_are_like(a, b) != U.terms_are_like(b, a):
                fails.append({"clause": "terms_are_like/symmetric", "detail": f"terms_are_like(`{ta}`, `{tb}`) = {U.terms_are_like(a, b)} but swapped = {U.terms_are_like(b, a)}"})
        except Exception as e:  # noqa: BLE001
            fails.append({"clause": "term-predicates-never-raise", "detail": f"terms_are_like(`{ta}`,`{tb}`) raised {type(e).__name__}"})
    # ---- has_like_terms: invariant under reordering and regrouping
    alphabet = ["x", "2x", "y", "4x^2", "x^2", "-3y", "7", "z", "5", "2xy", "x^y", "x^2 * y^3", "sgn(x)", "abs(y)", "3!", "-(x)"]
    maxk = 3 if tier == "quick" else 4
    for k in range(2, maxk + 1):
        for combo in itertools.combinations_with_replacement(alphabet, k):
            answers = {}
            for perm in set(itertools.permutations(combo)):
                for text in groupings(list(perm)):
                    cases += 1
                    try:
                        answers[text] = U.has_like_terms(P(text))
                    except Exception as e:  # noqa: BLE001
                        fails.append({"clause": "term-predicates-never-raise", "detail": f"has_like_terms(`{text}`) raised {type(e).__name__}"})
            if len(set(answers.values())) > 1:
                t_true = next(t for t, v in answers.items() if v)
                t_false = next(t for t, v in answers.items() if not v)
                fails.append({"clause": "has_like_terms/order-and-grouping-invariant", "detail": f"`{t_true}` -> True but `{t_false}` -> False"})
    # ---- get_term_ex on parsed natural-order terms; make_term inverse
    coefs = [None, 2, -3, 0.5, 12.5, 0, 1, -1]
    exps = [None, 2, -1, 0.5, 0, 7, 1]
    for c, v, e in itertools.product(coefs, ["x", "q", None], exps):
        if v is None and e is not None:
            continue
        if c is None and v is None:
            continue
        text = ("" if c is None else repr(c)) + ("" if v is None else v) + ("" if e is None else f"^{e!r}")
        cases += 1
        try:
            got = U.get_term_ex(P(text))
        except Exception as ex:  # noqa: BLE001
            fails.append({"clause": "get_term_ex/parsed-term", "detail": f"`{text}` raised {type(ex).__name__}"})
            continue
        want = (c, v, e)
        if got is None or tuple(got) != want or any(type(a) is not type(b) for a, b in zip(got, want)):
            fails.append({"clause": "get_term_ex/parsed-term", "detail": f"`{text}` -> {got} expected {want}"})
        if v is not None:
            # -x and -x^e
            if c is None:
                cases += 1
                got = U.get_term_ex(P("-" + text))
                if got is None or tuple(got) != (-1, v, e):
                    fails.append({"clause": "get_term_ex/parsed-term", "detail": f"`-{text}` -> {got} expected {(-1, v, e)}"})
            # make_term: value and inverse
            cc = 1 if c is None else c
            cases += 1
            try:
                t = U.make_term(cc, v, e)
                back = U.get_term_ex(t)
                for val in (Fraction(3), Fraction(1, 2), Fraction(-2)):
                    try:
                        tv = exact_eval(t, {v: val})
                        from treelib import exact_pow

                        want_v = Fraction(cc) * (exact_pow(val, Fraction(e)) if e is not None else val)
                        if not close(tv, want_v):
                            fails.append({"clause": "make_term/value", "detail": f"make_term({cc},{v},{e}) = `{t}` evaluates to {float(tv)} at {v}={val}, expected {float(want_v)}"})
                            break
                    except (Undefined, OverflowError, ZeroDivisionError):
                        continue
                norm = (None if (back is not None and back[0] is None and cc == 1) else cc, v, e)
                wantb = (None if cc == 1 and back is not None and back[0] is None else cc, v, e)
                if back is None or (back[0] if back[0] is not None else 1) != cc or back[1] != v or back[2] != e:
                    fails.append({"clause": "make_term/decomposes-back", "detail": f"get_term_ex(make_term({cc},{v},{e})) = {back}"})
            except Exception as ex:  # noqa: BLE001
                fails.append({"clause": "make_term/value", "detail": f"make_term({cc},{v},{e}) raised {type(ex).__name__}: {ex}"})
    # ---- factor table
    maxn = 3000 if tier == "quick" else 100000
    for n in range(1, maxn + 1):
        cases += 1
        d = U.factor(n)
        divs = {k for k in range(1, n + 1) if n % k == 0} if n <= 3000 else None
        keys = set(int(k) for k in d if float(k).is_integer())
        if any(not float(k).is_integer() for k in d) or any(d[k] * k != n for k in d):
            fails.append({"clause": "factor/pairs-multiply-to-the-value", "detail": f"factor({n}) = {d}"})
        elif divs is not None and keys != divs:
            fails.append({"clause": "factor/exactly-the-divisors", "detail": f"factor({n}) keys {sorted(keys)} vs divisors {sorted(divs)}"})
        elif divs is None:
            # spot check: all keys divide n and the small divisors are present
            if any(n % k for k in keys) or any((n % k == 0) != (k in keys) for k in range(1, 200)):
                fails.append({"clause": "factor/exactly-the-divisors", "detail": f"factor({n})"})
    # ---- never raise on non-equation expressions
    maxnodes = 4 if tier == "quick" else 5
    preds = [("get_sub_terms", U.get_sub_terms), ("is_simple_term", U.is_simple_term), ("is_preferred_term_form", U.is_preferred_term_form), ("get_term", U.get_term),
             ("get_terms", U.get_terms), ("has_like_terms", U.has_like_terms), ("get_term_ex", U.get_term_ex), ("terms_are_like", lambda n: U.terms_are_like(n, n))]
    for n in range(1, maxnodes + 1):
        for t in gen_trees(n):
            root = realise(t)
            for x in root.to_list("preorder"):
                for name, fn in preds:
                    cases += 1
                    try:
                        fn(x)
                    except Exception as ex:  # noqa: BLE001
                        fails.append({"clause": "term-predicates-never-raise", "detail": f"{name}(`{x}`) inside `{root}` raised {type(ex).__name__}: {str(ex)[:80]}"})
    seen = {}
    for f in fails:
        key = (f["clause"], f["detail"][:50])
        seen.setdefault(key, f)
        seen[key]["count"] = seen[key].get("count", 0) + 1
    return {"cases": cases, "failures": list(seen.values())[:60], "n_failures": len(fails), "factor_up_to": maxn, "sum_terms_up_to": maxk, "never_raise_nodes_up_to": maxnodes}


def main():
    tier = sys.argv[1] if len(sys.argv) > 1 else "quick"
    out = check(tier)
    print(json.dumps(out, default=str))
    sys.exit(1 if out["n_failures"] else 0)


if __name__ == "__main__":
    main()
