"""Bounded stand-in for the rule contracts: every tree of the stated scope x every node x every
rule configuration, applied on a clone as search agents do.  Output: JSON on stdout."""
from __future__ import annotations

import json
import multiprocessing as mp
import sys
import time

from treelib import E, gen_trees, nodes_inorder, realise  # type: ignore
from rules_tierb import RULES, check_application, check_find  # type: ignore


def trees_for(scope):
    max_expr, max_side = scope
    out = []
    for n in range(1, max_expr + 1):
        out += list(gen_trees(n))
    sides = []
    for n in range(1, max_side + 1):
        sides += list(gen_trees(n))
    eqs = [("EqualExpression", l, r) for l in sides for r in sides]
    return out, eqs


def work(args):
    chunk, rules = args
    fails = []
    n_app = 0
    n_applicable = 0
    for t in chunk:
        for rname in rules:
            root = realise(t)
            nodes = nodes_inorder(root)
            for i in range(len(nodes)):
                root = realise(t)
                node = nodes_inorder(root)[i]
                n_app += 1
                f = check_application(rname, root, node)
                if f:
                    fails += f
                # cheap proxy for applicability count
            root = realise(t)
            fails += check_find(rname, root)
    return n_app, fails


TARGETED = [
    "x + 2 * (y + 3) = 7", "4 + (y + 1)^2 = x", "x + -(y + 3) = 7", "x + (y + 6) / 2 = 7", "7 = x - (y + 3) + 1", "7 = 2x + 3 + 1", "x + (2 + 3) = 7",
    "x + y + z = 3", "5 = a + (b + c)", "4x + (3 + 2x) = 9", "0xy = 0", "0 * (x * y) = 0", "x * 0 = 0", "5 = 0 * 2x", "2 * (x + 3) = 4", "(x + 1)^2 = 4",
    "3x + 7 = 2 + 4x", "4x = 8", "2 * 3 * x = 12", "(4x) * y = 8", "x / 2 + 3 = 5", "-(x + 3) = 2", "5 - (x + 3) = 2", "(x + 3) / 2 = 1",
    "4x + 2y + 3z", "(a * b) * c", "a * (b * c)", "x * (y + 2)", "(y + 2) * x", "x^2 * (4y + 7)", "(c + d) * (a + b)", "2 * (3 + x) * y", "2 + (3x + y)", "5 * ((3 + x) * y)",
    "4x - (2x + 3)", "(z + 4x) - (2x + y)", "9y - (4 + 2y)", "x + (x - 4)", "2y + (3y - 5)", "x^0 * x^3", "4x^0 * 2x", "x * x^0 * y", "x^-1 * x", "y + y^0", "0x + 2x", "3z + (0z + 4)",
    "x + (2 - 2)", "8 / 4 * 2", "(x / y) * z", "z * (x / y)", "(x / y) / z", "4 / -(2 + 3)", "a - -(x^2)", "-(2 + 3) * x", "(2x)^2", "x + 1 / 40000", "3^39 * 3",
]


def targeted_work(rules):
    from treelib import ExpressionParser

    fails = []
    n = 0
    for text in TARGETED:
        for rname in rules:
            root = ExpressionParser().parse(text).clone()
            for i in range(len(nodes_inorder(root))):
                root = ExpressionParser().parse(text).clone()
                node = nodes_inorder(root)[i]
                n += 1
                fails += check_application(rname, root, node)
            fails += check_find(rname, ExpressionParser().parse(text).clone())
    return n, fails


def sstr(x):
    try:
        return str(x)
    except BaseException as e:  # noqa: BLE001  (a broken tree may not print)
        return f"<unprintable: {type(e).__name__}>"


def two_step_work(args):
    """Rule A applied at a node, then - on the RESULT OBJECT, not re-cloned - every rule B at every node of
    the result: B's applicability answer must be usable (no raise, result well formed, same value)."""
    from treelib import ASSIGNMENTS, ExpressionParser, close, holds, kind, wf_problems
    from rules_tierb import evaluate, make_rule

    items, rules = args
    fails = []
    n = 0
    for text in items:
        base = ExpressionParser().parse(text).clone()
        count = len(nodes_inorder(base))
        before = [evaluate(base, e) for e in ASSIGNMENTS]
        is_eq = kind(base) == "EqualExpression"
        for ra in rules:
            rule_a = make_rule(ra)
            for i in range(count):
                first = ExpressionParser().parse(text).clone()
                try:
                    if not rule_a.can_apply_to(nodes_inorder(first)[i]):
                        continue
                    mid = rule_a.apply_to(nodes_inorder(first)[i]).result.get_root()
                    mid_count = len(nodes_inorder(mid))
                except Exception:  # noqa: BLE001  (the one-step sweep reports these)
                    continue
                for rb in rules:
                    rule_b = make_rule(rb)
                    for j in range(mid_count):
                        t = ExpressionParser().parse(text).clone()
                        mid = rule_a.apply_to(nodes_inorder(t)[i]).result.get_root()
                        nodes = nodes_inorder(mid)
                        if j >= len(nodes):
                            continue
                        node = nodes[j]
                        where = f"{ra} at node {i} of `{text}` gives `{sstr(mid)}`; then {rb} at `{sstr(node)}`"
                        try:
                            if not rule_b.can_apply_to(node):
                                continue
                        except Exception as e:  # noqa: BLE001
                            fails.append({"prop": "C06", "clause": "two-step/can_apply_to/no-raise", "cfg": rb, "detail": f"{where}: raised {type(e).__name__}", "input": text, "shape": {}})
                            continue
                        n += 1
                        try:
                            res = rule_b.apply_to(node).result.get_root()
                        except Exception as e:  # noqa: BLE001
                            fails.append({"prop": "C06", "clause": "two-step/apply_to/no-raise", "cfg": rb, "detail": f"{where}: raised {type(e).__name__}: {str(e)[:80]}", "input": text, "shape": {}})
                            continue
                        probs = wf_problems(res)
                        if probs:
                            fails.append({"prop": "C07", "clause": "two-step/structure/well-formed", "cfg": rb, "detail": f"{where}: {probs[0]}", "input": text, "shape": {}})
                        for env, b in zip(ASSIGNMENTS, before):
                            try:
                                a = evaluate(res, env)
                            except Exception:  # noqa: BLE001
                                a = None
                            if a is None or b is None:
                                continue
                            if is_eq:
                                if isinstance(a, tuple) and isinstance(b, tuple) and holds(a) != holds(b):
                                    fails.append({"prop": "C02", "clause": "two-step/equation/same-solutions", "cfg": rb, "detail": f"{where} -> `{sstr(res)}` at {env}", "input": text, "shape": {}})
                                    break
                            elif not (isinstance(a, tuple) or isinstance(b, tuple)) and not close(a, b):
                                fails.append({"prop": "C01", "clause": "two-step/value/preserved", "cfg": rb, "detail": f"{where} -> `{sstr(res)}`: {float(b)} -> {float(a)} at {env}", "input": text, "shape": {}})
                                break
    return n, fails


TWO_STEP = [
    "(x * y) * (b + c)", "(2x) * (y + 3)", "(x * y) * (2 + 3)", "(b + c) * (x * y)", "(x / 2) * (y + 3)", "x^2 * (4y + 7)",
    "(x + 2 * 3) + y", "(2 * 3 + x) + y", "(4x + 2 * 3) + 2x", "(x * (2 + 3)) * y", "(a + b) + (2 + 3)", "4x + (2x + 3)", "2 * (3 + x) * y", "(x + 1) * (y + 2)", "4x * 2y * 5x",
    "x + 2 + 3 = 7", "2 * (x + 3) = 4", "3x + 7 = 2 + 4x", "4 - (2x + 3)", "(x / y) * (2 + 3)", "x^2 * x * 2 * 3", "-(2 + 3) * x + 4x", "7 - 2 - 3 + x", "(2 + x) + (3 + x)",
]


def main():
    max_expr = int(sys.argv[1])
    max_side = int(sys.argv[2])
    nproc = int(sys.argv[3]) if len(sys.argv) > 3 else 16
    rules = sys.argv[4].split(",") if len(sys.argv) > 4 else list(RULES)
    t0 = time.time()
    exprs, eqs = trees_for((max_expr, max_side))
    allt = exprs + eqs
    size = max(1, len(allt) // (nproc * 8))
    chunks = [(allt[i : i + size], rules) for i in range(0, len(allt), size)]
    total = 0
    fails = []
    with mp.get_context("fork").Pool(nproc) as pool:
        for n, f in pool.imap_unordered(work, chunks):
            total += n
            fails += f
    n, f = targeted_work(rules)
    total += n
    fails += f
    two = 0
    with mp.get_context("fork").Pool(nproc) as pool:
        for n, f in pool.imap_unordered(two_step_work, [([t], rules) for t in TWO_STEP]):
            two += n
            fails += f
    # de-duplicate failures by (cfg, prop, clause, shape)
    seen = {}
    for f in fails:
        key = (f["cfg"], f["prop"], f["clause"], json.dumps(f.get("shape", {}), sort_keys=True))
        if key not in seen:
            seen[key] = dict(f, count=0)
        seen[key]["count"] += 1
    print(json.dumps({"trees": len(allt), "expressions": len(exprs), "equations": len(eqs), "applications": total, "two_step_applications_without_recloning": two,
                      "failures": list(seen.values()), "seconds": time.time() - t0}, default=str))


if __name__ == "__main__":
    main()
