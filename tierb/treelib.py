"""Concrete helpers (run under /venv/bin/python against the real mathy_core): tree construction,
an independent exact evaluator, structural checks, enumeration, and the rule-application contract
checked at run time.  Used as replay harness and as the bounded stand-in (Tier B)."""
from __future__ import annotations

import itertools
import math
import os
import sys
from fractions import Fraction
from typing import Any, Dict, Iterator, List, Optional, Tuple

REPO = os.environ.get("PYVC_REPO", "/repo")
if REPO not in sys.path:
    sys.path.insert(0, REPO)

import warnings  # noqa: E402

warnings.filterwarnings("ignore")

from mathy_core import expressions as E  # noqa: E402
from mathy_core.parser import ExpressionParser  # noqa: E402

UNARY = ["NegateExpression", "FactorialExpression", "AbsExpression", "SgnExpression"]
BINARY = ["EqualExpression", "AddExpression", "SubtractExpression", "MultiplyExpression", "DivideExpression", "PowerExpression"]
LEAF = ["ConstantExpression", "VariableExpression"]


def cls(name):
    return getattr(E, name)


def kind(n) -> str:
    return type(n).__name__


# ------------------------------------------------------------------ exact evaluation (oracle)
class Undefined(Exception):
    pass


def exact_eval(n, env: Dict[str, Any]):
    """Independent evaluator: Fractions where possible, floats otherwise; raises Undefined where
    the mathematical value does not exist (division by zero, 0^negative, bad factorial...)."""
    k = kind(n)
    if k == "ConstantExpression":
        v = n.value
        if v is None:
            raise Undefined("constant None")
        if isinstance(v, float) or type(v).__module__ == "numpy":
            fv = float(v)
            if math.isnan(fv) or math.isinf(fv):
                raise Undefined("nan constant")
            if hasattr(v, "dtype") and v.dtype.kind in "iu":
                return Fraction(int(v))
            return Fraction(fv)
        return Fraction(v)
    if k == "VariableExpression":
        if n.identifier not in env:
            raise Undefined(f"unbound {n.identifier}")
        return Fraction(env[n.identifier])
    if k in UNARY:
        c = n.get_child()
        if c is None:
            raise Undefined("unary without child")
        v = exact_eval(c, env)
        if k == "NegateExpression":
            return -v
        if k == "AbsExpression":
            return abs(v)
        if k == "SgnExpression":
            return Fraction((v > 0) - (v < 0))
        if k == "FactorialExpression":
            if v.denominator != 1 or v < 0 or v > 200:
                raise Undefined("factorial domain")
            return Fraction(math.factorial(int(v)))
    if n.left is None or n.right is None:
        raise Undefined("binary without operands")
    a = exact_eval(n.left, env)
    b = exact_eval(n.right, env)
    if k == "AddExpression":
        return a + b
    if k == "SubtractExpression":
        return a - b
    if k == "MultiplyExpression":
        return a * b
    if k == "DivideExpression":
        if b == 0:
            raise Undefined("division by zero")
        return a / b
    if k == "PowerExpression":
        return exact_pow(a, b)
    if k == "EqualExpression":
        return ("eq", a, b)
    raise Undefined(k)


def exact_pow(a: Fraction, b: Fraction):
    if b.denominator == 1:
        e = int(b)
        if abs(e) > 512:
            raise Undefined("huge exponent")
        if e >= 0:
            r = a**e
        else:
            if a == 0:
                raise Undefined("0 to a negative power")
            r = a**e
        if abs(r.numerator) > 10**400 or abs(r.denominator) > 10**400:
            raise Undefined("huge power")
        return r
    if a < 0:
        raise Undefined("negative base, fractional exponent")
    if a == 0:
        if b < 0:
            raise Undefined("0 to a negative power")
        return Fraction(0)
    try:
        return Fraction(float(a) ** float(b))
    except (OverflowError, ValueError):
        raise Undefined("power overflow")


def close(a, b, rel=1e-9) -> bool:
    if isinstance(a, tuple) or isinstance(b, tuple):
        return False
    if a == b:
        return True
    fa, fb = float(a), float(b)
    return abs(fa - fb) <= rel * max(abs(fa), abs(fb), 1e-300)


def holds(v) -> bool:
    _, a, b = v
    return close(a, b)


# ------------------------------------------------------------------ structure
def wf_problems(root, allow_nan=False, payload=None) -> List[str]:
    """Links, arity, sharing, root (C07).  Payload defects (NaN/inf/None constants, fixed-width numpy
    integers) are not part of C07's statement; they are appended to `payload` (C09 closure)."""
    probs: List[str] = []
    if payload is None:
        payload = []
    if root.parent is not None:
        probs.append("root has a parent")
    seen = set()

    def visit(n, parent, is_root):
        if id(n) in seen:
            probs.append(f"node {kind(n)} occurs twice")
            return
        seen.add(id(n))
        k = kind(n)
        if k not in UNARY + BINARY + LEAF:
            probs.append(f"{k} is not an expression node")
            return
        if not is_root:
            if n.parent is not parent:
                probs.append(f"{k}.parent inconsistent")
            if k == "EqualExpression":
                probs.append("equation below the root")
        if k in BINARY:
            if n.left is None or n.right is None:
                probs.append(f"{k} lacks an operand")
        elif k in UNARY:
            if n.child_on_left is not False:
                probs.append(f"{k} child_on_left")
            if n.right is None or n.left is not None:
                probs.append(f"{k} operand on the wrong side/missing")
            if k == "FactorialExpression" and n.right is not None and kind(n.right) != "ConstantExpression":
                probs.append("factorial of a non-constant")
        else:
            if n.left is not None or n.right is not None:
                probs.append(f"leaf {k} has children")
            if k == "ConstantExpression":
                v = n.value
                if v is None or isinstance(v, bool) or not isinstance(v, (int, float)) and type(v).__module__ != "numpy":
                    payload.append(f"constant holds {v!r}")
                elif isinstance(v, float) and (math.isnan(v) or math.isinf(v)):
                    payload.append(f"constant holds {v!r}")
                elif hasattr(v, "dtype") and v.dtype.kind in "iu":
                    payload.append(f"constant holds a fixed-width numpy integer {v!r}")
            if k == "VariableExpression" and not isinstance(n.identifier, str):
                payload.append(f"variable identifier {n.identifier!r}")
        for c in (n.left, n.right):
            if c is not None:
                visit(c, n, False)

    visit(root, None, True)
    return probs


def snapshot(root):
    """Structural snapshot (identity-sensitive) used for purity / frame checks."""
    out = []

    def visit(n):
        out.append(
            (
                id(n),
                kind(n),
                id(n.left) if n.left is not None else None,
                id(n.right) if n.right is not None else None,
                id(n.parent) if n.parent is not None else None,
                getattr(n, "value", None).__repr__() if hasattr(n, "value") else None,
                getattr(n, "identifier", None),
                getattr(n, "child_on_left", None),
            )
        )
        for c in (n.left, n.right):
            if c is not None:
                visit(c)

    visit(root)
    return out


def variables(root) -> set:
    return {v.identifier for v in root.find_type(E.VariableExpression)}


def nodes_inorder(root) -> List[Any]:
    return root.to_list("inorder")


def path_of(n) -> str:
    p = []
    while n.parent is not None:
        p.append("L" if n.parent.left is n else "R")
        n = n.parent
    return "".join(reversed(p))


def at_path(root, path: str):
    n = root
    for c in path:
        n = n.left if c == "L" else n.right
    return n


def shape_of(node, depth=4) -> Dict[str, List[str]]:
    out: Dict[str, List[str]] = {}
    seen = set()

    def short(k):
        return k.replace("Expression", "")

    def walk(o, path, d):
        if o is None or id(o) in seen or d > 6:
            return
        seen.add(id(o))
        out[path] = [short(kind(o))]
        walk(o.left, path + ".left", d + 1)
        walk(o.right, path + ".right", d + 1)
        if o.parent is not None:
            walk(o.parent, path + ".parent", d + 1)
        else:
            out[path + ".parent"] = ["None"]

    walk(node, "node", 0)
    return out


# ------------------------------------------------------------------ construction
def build(desc, names=None):
    """Nested description -> real tree.  Opaque sub-trees become fresh variables."""
    if names is None:
        names = {"next": 0, "env": {}}
    if desc is None:
        return None
    if desc.get("gap"):
        return build(desc["below"], names)
    k = desc["kind"]
    if desc.get("opaque"):
        # an arbitrary subtree of the model's kind and value: the smallest tree of that kind around
        # a fresh variable bound to a suitable value
        pool = "pqrstuvwabcdefghjkmn"
        name = pool[names["next"] % len(pool)]
        names["next"] += 1
        val = desc.get("val")
        val = val if val is not None else 1
        v = E.VariableExpression(name)
        if k == "ConstantExpression":
            return E.ConstantExpression(val)
        names["env"][name] = val
        if k == "VariableExpression":
            return v
        if k == "AddExpression":
            return E.AddExpression(v, E.ConstantExpression(0))
        if k == "SubtractExpression":
            return E.SubtractExpression(v, E.ConstantExpression(0))
        if k == "MultiplyExpression":
            return E.MultiplyExpression(v, E.ConstantExpression(1))
        if k == "DivideExpression":
            return E.DivideExpression(v, E.ConstantExpression(1))
        if k == "PowerExpression":
            return E.PowerExpression(v, E.ConstantExpression(1))
        if k == "NegateExpression":
            names["env"][name] = -val
            return E.NegateExpression(v)
        if k == "AbsExpression":
            return E.AbsExpression(v)
        if k == "SgnExpression":
            return E.SgnExpression(v)
        if k == "FactorialExpression":
            return E.FactorialExpression(E.ConstantExpression(3))
        return v
    if k == "ConstantExpression":
        v = desc.get("value")
        if v is None:
            v = 1
        if desc.get("isfloat") and isinstance(v, int):
            v = float(v)
        return E.ConstantExpression(v)
    if k == "VariableExpression":
        ident = desc.get("ident")
        name = "xyzXYZ"[(ident or 0) % 6] if isinstance(ident, int) else "x"
        if desc.get("sigma") is not None:
            names["env"].setdefault(name, desc["sigma"])
        else:
            names["env"].setdefault(name, 2)
        return E.VariableExpression(name)
    if k in UNARY:
        return cls(k)(build(desc.get("right"), names))
    return cls(k)(build(desc.get("left"), names), build(desc.get("right"), names))


def find_label(desc, root, oid):
    """Locate the real node corresponding to the description entry with the given oid."""

    def walk(d, n):
        if d is None or n is None:
            return None
        if d.get("gap"):
            return walk(d["below"], n)
        if d.get("oid") == oid:
            return n
        for side in ("left", "right"):
            if side in d and d[side] is not None:
                c = n.left if side == "left" else n.right
                r = walk(d[side], c)
                if r is not None:
                    return r
        return None

    return walk(desc, root)


# ------------------------------------------------------------------ enumeration
LEAF_VALUES = [("c", 0), ("c", 1), ("c", 2), ("c", -3), ("c", 0.5), ("v", "x"), ("v", "y")]


def gen_trees(n: int, leaves=LEAF_VALUES, kinds_bin=None, kinds_un=None) -> Iterator[Any]:
    """All expression descriptions with exactly n nodes (no Equal)."""
    kinds_bin = kinds_bin or [k for k in BINARY if k != "EqualExpression"]
    kinds_un = kinds_un or ["NegateExpression", "AbsExpression", "SgnExpression"]
    if n == 1:
        for t, v in leaves:
            yield (t, v)
        return
    for k in kinds_un:
        for c in gen_trees(n - 1, leaves, kinds_bin, kinds_un):
            yield (k, c)
    for nl in range(1, n - 1):
        nr = n - 1 - nl
        for k in kinds_bin:
            for l in gen_trees(nl, leaves, kinds_bin, kinds_un):
                for r in gen_trees(nr, leaves, kinds_bin, kinds_un):
                    yield (k, l, r)


def realise(t):
    if t[0] == "c":
        return E.ConstantExpression(t[1])
    if t[0] == "v":
        return E.VariableExpression(t[1])
    if len(t) == 2:
        return cls(t[0])(realise(t[1]))
    return cls(t[0])(realise(t[1]), realise(t[2]))


ASSIGNMENTS = [{"x": 2, "y": 3}, {"x": Fraction(-1, 2), "y": 5}, {"x": 7, "y": Fraction(-3)}]
