"""Engine differential test, native side: for (tree, rule configuration, node) the outcome of the real
can_apply_to / apply_to under CPython, as plain data.  The symbolic interpreter is then run on the same
concrete inputs (pyvc/difftest.py) and must produce the same outcomes."""
from __future__ import annotations

import json
import sys

from treelib import E, ExpressionParser, gen_trees, kind, nodes_inorder, realise  # type: ignore
from rules_tierb import RULES, make_rule  # type: ignore
from rules_sweep import TARGETED, TWO_STEP  # type: ignore


def desc_of(n):
    if n is None:
        return None
    k = kind(n)
    if k == "ConstantExpression":
        v = n.value
        return ["c", repr(float(v)) if isinstance(v, float) else str(int(v)) if isinstance(v, int) else repr(v), type(v).__name__]
    if k == "VariableExpression":
        return ["v", n.identifier]
    if n.left is None or (hasattr(n, "child_on_left") and n.right is None):
        # one-operand node
        return [k, desc_of(n.get_child()), bool(getattr(n, "child_on_left", False))]
    return [k, desc_of(n.left), desc_of(n.right)]


def main():
    maxn = int(sys.argv[1])
    descs = []
    for n in range(1, maxn + 1):
        for t in gen_trees(n):
            descs.append(desc_of(realise(t)))
    sides = [t for n in range(1, 3) for t in gen_trees(n)]
    for l in sides[:: max(1, len(sides) // 12)]:
        for r in sides[:: max(1, len(sides) // 12)]:
            descs.append(desc_of(realise(("EqualExpression", l, r))))
    for text in TARGETED + TWO_STEP:
        try:
            descs.append(desc_of(ExpressionParser().parse(text)))
        except Exception:  # noqa: BLE001
            pass
    out = []
    for d in descs:
        count = None
        for rname in RULES:
            rule = make_rule(rname)
            root = build(d)
            count = len(nodes_inorder(root))
            for i in range(count):
                root = build(d)
                node = nodes_inorder(root)[i]
                rec = {"tree": d, "rule": rname, "node": i}
                try:
                    can = rule.can_apply_to(node)
                    rec["can"] = bool(can)
                except Exception as e:  # noqa: BLE001
                    rec["can"] = "raise:" + type(e).__name__
                    out.append(rec)
                    continue
                if can:
                    try:
                        res = rule.apply_to(node).result
                        rec["result"] = desc_of(res.get_root())
                    except Exception as e:  # noqa: BLE001
                        rec["result"] = "raise:" + type(e).__name__
                out.append(rec)
    json.dump(out, sys.stdout)


def build(d):
    if d[0] == "c":
        v = d[1]
        return E.ConstantExpression(float(v) if d[2] in ("float", "float64") else int(v))
    if d[0] == "v":
        return E.VariableExpression(d[1])
    cls = getattr(E, d[0])
    if isinstance(d[2], bool):
        return cls(build(d[1]), d[2])
    return cls(build(d[1]), build(d[2]))


if __name__ == "__main__":
    main()
