"""Bounded cross-check for C08 on the real code: the documented forms instantiated from text over a
grid of coefficients / exponents / variables and a few surrounding contexts; checks acceptance
(or documented non-applicability), that applying the rule changes the text, and value preservation."""
from __future__ import annotations

import itertools
import json
import sys
from fractions import Fraction

from treelib import ExpressionParser, close, exact_eval, nodes_inorder, Undefined, kind  # type: ignore
from rules_tierb import make_rule  # type: ignore

COEF = ["2", "3", "0.5", "12.5", "7", "10"]
NEG = ["-3", "-0.5"]
EXPS = ["2", "3", "0.5", "7"]
CONTEXTS = ["{}", "({}) + z", "z + ({})", "({}) - z", "w * ({})", "({}) / w", "({}) = z", "z = ({})"]
ENVS = [{"x": Fraction(2), "y": Fraction(3), "z": Fraction(5), "w": Fraction(7), "a": Fraction(1, 2), "b": Fraction(-2), "c": Fraction(3)},
        {"x": Fraction(-1, 2), "y": Fraction(5), "z": Fraction(2), "w": Fraction(-3), "a": Fraction(4), "b": Fraction(1, 3), "c": Fraction(-5)}]


def forms():
    """(rule, form text, expect applicable, needs_context_kinds) ; the node is the one that prints like the form."""
    for a, b in itertools.product(COEF[:3] + NEG[:1], repeat=2):
        yield "commutative_swap", f"{a}x + {b}y", True, None
        yield "commutative_swap", f"{a}x * {b}y", True, None
        yield "commutative_swap", f"{a}x - {b}y", False, None
        yield "commutative_swap", f"{a}x / {b}y", False, None
        yield "multiplicative_inverse", f"{a}x / {b}y", True, None
        yield "distributive_multiply_across", f"{a}x * ({b}y + c)", True, None
        yield "distributive_multiply_across", f"({b}y + c) * {a}x", True, None
        yield "constants_simplify", f"{a} + {b}", True, None
        yield "constants_simplify", f"{a} * {b}", True, None
        yield "constants_simplify", f"{a} - {b}", True, None
        yield "constants_simplify", f"{a} / {b}", True, None
        for e in EXPS[:2]:
            yield "distributive_factor_out", f"{a}x^{e} + {b}x^{e}", True, None
            yield "variable_multiply", f"{a}x^{e} * {b}x", True, None
            yield "variable_multiply", f"x^{e} * {b}x^{e}", True, None
        yield "distributive_factor_out", f"{a}x + {b}x", True, None
        yield "distributive_factor_out", f"x + {b}x", True, None
        if "." not in a + b:
            yield "distributive_factor_out", f"{a}x + {b}y", False, None
        yield "variable_multiply", f"{a}x * {b}y", False, None
        yield "variable_multiply", f"x * x", True, None
    yield "distributive_factor_out", "6 + 4", False, None
    yield "distributive_factor_out[constants=True]", "6 + 4", True, None
    for op in "+*":
        yield "associative_swap", f"(a {op} b) {op} c", True, "inner"
        yield "associative_swap", f"a {op} (b {op} c)", True, "inner"


HISTORY_FORMS = ["{a}x + {c}y + {b}x", "{a}x + {b}x + {c}y", "{c}y + {a}x + {b}x", "{a}x^2 + {b}x^2 + {c}", "({a}x + {b}x) + ({c}y + z)",
                 "{a}x * {b}x * y", "{a} * (x + {b}) + {c}x", "{a}x - {b}x + {c}x", "{a}x + {b}x = {c}y + z"]


def _answers(rule, rname, root):
    """What a rule instance says about every node of a tree: applicability and the text of the result."""
    out = []
    for i, n in enumerate(nodes_inorder(root)):
        try:
            can = rule.can_apply_to(n)
        except Exception as e:  # noqa: BLE001
            out.append((i, f"raised {type(e).__name__}"))
            continue
        if not can:
            out.append((i, False))
            continue
        try:
            out.append((i, str(rule.apply_to(n.clone_from_root()).result.get_root())))
        except Exception as e:  # noqa: BLE001
            out.append((i, f"apply raised {type(e).__name__}"))
    return out


def history_cases(fails, tier):
    """A long-lived rule instance answers exactly as a fresh one: the documented forms are accepted (and the
    documented non-forms refused) whatever was asked before and however the tree was edited in place since."""
    from rules_tierb import RULES  # type: ignore

    n = 0
    triples = [("2", "3", "5"), ("4", "0.5", "7")] if tier == "quick" else [("2", "3", "5"), ("4", "0.5", "7"), ("-3", "6", "2"), ("10", "12.5", "3")]
    for form in HISTORY_FORMS:
        for a, b, c in triples:
            text = form.format(a=a, b=b, c=c)
            for editor in ("commutative_swap", "associative_swap"):
                try:
                    probe = ExpressionParser().parse(text).clone()
                except Exception:  # noqa: BLE001
                    continue
                n_nodes = len(nodes_inorder(probe))
                for k in range(n_nodes):
                    root = ExpressionParser().parse(text).clone()
                    target = nodes_inorder(root)[k]
                    ed = make_rule(editor)
                    if not ed.can_apply_to(target):
                        continue
                    shared = {r: make_rule(r) for r in RULES}
                    for r, rule in shared.items():
                        _answers(rule, r, root)  # earlier questions about the same node objects
                    try:
                        root = ed.apply_to(target).result.get_root()  # in place: the node objects stay, their operands move
                    except Exception:  # noqa: BLE001
                        continue
                    after = str(root)
                    for r, rule in shared.items():
                        n += 1
                        got = _answers(rule, r, root)
                        want = _answers(make_rule(r), r, root)
                        if str(root) != after:
                            fails.append({"clause": "applicability-check-is-pure", "cfg": r, "detail": f"asking {r} about `{after}` changed it to `{root}`"})
                            break
                        if got != want:
                            i = next(j for j, (x, y) in enumerate(zip(got, want)) if x != y)
                            fails.append({"clause": "long-lived-rule-answers-as-a-fresh-one", "cfg": r,
                                          "detail": f"{r}: after {editor} at node {k} of `{text}` gave `{after}`, the rule object that had been asked about the tree before answers {got[i][1]!r} at in-order node {got[i][0]}, a fresh one {want[i][1]!r}"[:400]})
    return n


def main():
    tier = sys.argv[1] if len(sys.argv) > 1 else "quick"
    fails = []
    cases = 0
    parser = ExpressionParser()
    ctxs = CONTEXTS if tier != "quick" else CONTEXTS[:5] + CONTEXTS[6:7]
    for rname, form, expect, special in forms():
        for ctx in ctxs:
            if rname.startswith("restate") and ctx not in ("{}", "({}) + z", "({}) = z"):
                continue
            text = ctx.format(form)
            try:
                root = parser.parse(text).clone()
            except Exception as e:  # noqa: BLE001
                continue
            target = str(parser.parse(form))
            if special == "inner":
                inner = form[form.index("(") + 1 : form.index(")")]
                target = str(parser.parse(inner))
            nodes = [n for n in nodes_inorder(root) if str(n) == target]
            if not nodes:
                continue
            node = nodes[0]
            rule = make_rule(rname)
            cases += 1
            can = rule.can_apply_to(node)
            if can != expect:
                fails.append({"clause": "every-instance-is-accepted" if expect else "documented-non-applicability-respected", "cfg": rname,
                              "detail": f"{rname} on `{target}` inside `{text}`: can_apply_to = {can}"})
                continue
            if not can:
                continue
            work = node.clone_from_root()
            try:
                res = rule.apply_to(work).result.get_root()
            except Exception as e:  # noqa: BLE001
                fails.append({"clause": "apply_to-does-not-raise", "cfg": rname, "detail": f"{rname} on `{target}` inside `{text}` raised {type(e).__name__}"})
                continue
            if str(res) == str(root) and not rname.startswith("associative"):
                fails.append({"clause": "result-has-the-documented-shape", "cfg": rname, "detail": f"{rname} on `{target}` inside `{text}` left the expression unchanged"})
            for env in ENVS:
                try:
                    a, b = exact_eval(root, env), exact_eval(res, env)
                except (Undefined, OverflowError, ZeroDivisionError):
                    continue
                same = (isinstance(a, tuple) and isinstance(b, tuple) and (close(a[1], a[2]) == close(b[1], b[2]))) or (not isinstance(a, tuple) and not isinstance(b, tuple) and close(a, b))
                if not same:
                    fails.append({"clause": "value-preserved-on-documented-form", "cfg": rname, "detail": f"{rname} on `{target}` inside `{text}` -> `{res}`"})
                    break
    cases += history_cases(fails, tier)
    seen = {}
    for f in fails:
        seen.setdefault((f["clause"], f["cfg"], f["detail"][:50]), f)
    print(json.dumps({"cases": cases, "contexts": ctxs, "failures": list(seen.values())[:40], "n_failures": len(fails)}))
    sys.exit(1 if fails else 0)


if __name__ == "__main__":
    main()
