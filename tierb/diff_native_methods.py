"""Engine differential test for tree / expression / util functions, native side: what CPython returns for a
set of probes on small concrete trees (constructors with the operand on either side included)."""
from __future__ import annotations

import json
import math
import sys

from treelib import E, kind  # type: ignore
from diff_native import build, desc_of  # type: ignore

from mathy_core import util

UN = ["NegateExpression", "FactorialExpression", "AbsExpression", "SgnExpression"]
BIN = ["EqualExpression", "AddExpression", "SubtractExpression", "MultiplyExpression", "DivideExpression", "PowerExpression"]
LEAVES = [["c", "0", "int"], ["c", "2", "int"], ["c", "-3", "int"], ["c", "0.5", "float"], ["v", "x"], ["v", "y"]]
ENVS = [{"x": 2, "y": -3}, {"x": 0.5, "y": 2.0}, {"x": 0, "y": 1}]


def gen(n):
    if n == 1:
        yield from LEAVES
        return
    for k in UN:
        for c in gen(n - 1):
            yield [k, c, False]
            if k in ("NegateExpression", "FactorialExpression"):
                yield [k, c, True]
    for nl in range(1, n - 1):
        for k in BIN:
            for l in gen(nl):
                for r in gen(n - 1 - nl):
                    yield [k, l, r]


def full(n):
    if n is None:
        return None
    k = kind(n)
    pay = num(n.value) if k == "ConstantExpression" else n.identifier if k == "VariableExpression" else None
    return [k, pay, full(n.left), full(n.right)]


def pre(n, out=None):
    if out is None:
        out = []
    if n is None:
        return out
    out.append(n)
    pre(n.left, out)
    pre(n.right, out)
    return out


def num(v):
    if isinstance(v, bool):
        return ["bool", str(v)]
    if isinstance(v, (int,)) and not isinstance(v, bool):
        return ["int", str(v)]
    if isinstance(v, float) or type(v).__name__ in ("float64", "float32"):
        f = float(v)
        return [type(v).__name__, "nan" if math.isnan(f) else "inf" if math.isinf(f) else repr(f)]
    if type(v).__name__ in ("int64", "int32"):
        return [type(v).__name__, str(int(v))]
    return [type(v).__name__, repr(v)[:40]]


def guarded(f):
    try:
        return f()
    except RecursionError:
        return "raise:RecursionError"
    except Exception as e:  # noqa: BLE001
        return "raise:" + type(e).__name__


def term_data(t):
    if t is None or t is False:
        return None
    return [None if t.coefficient is None else num(t.coefficient), t.variable, None if t.exponent is None else num(t.exponent)]


def probes(d):
    out = {}
    for i, env in enumerate(ENVS):
        out[f"evaluate{i}"] = guarded(lambda: num(build(d).evaluate(dict(env))))
    root = build(d)
    nodes = pre(root)
    index = {id(n): i for i, n in enumerate(nodes)}
    out["clone"] = guarded(lambda: full(build(d).clone()))
    for order in ("preorder", "inorder", "postorder"):
        out[f"to_list_{order}"] = guarded(lambda: [index[id(n)] for n in root.to_list(order)])
    out["find_add"] = guarded(lambda: [index[id(n)] for n in root.find_type(E.AddExpression)])
    out["find_const"] = guarded(lambda: [index[id(n)] for n in root.find_type(E.ConstantExpression)])
    per = []
    for i, n in enumerate(nodes):
        rec = {}
        rec["root"] = guarded(lambda: index[id(n.get_root())])
        rec["sibling"] = guarded(lambda: (lambda s: None if s is None else index[id(s)])(n.get_sibling()))
        rec["children"] = guarded(lambda: [index[id(c)] for c in n.get_children()])
        rec["root_side"] = guarded(lambda: n.get_root_side()) if n.parent is not None else None
        rec["term"] = guarded(lambda: term_data(util.get_term_ex(n)))
        rec["simple_term"] = guarded(lambda: bool(util.is_simple_term(n)))
        rec["preferred"] = guarded(lambda: bool(util.is_preferred_term_form(n)))
        if kind(n) != "EqualExpression":
            rec["like"] = guarded(lambda: bool(util.has_like_terms(n)))
        if n.left is not None and n.right is not None:
            rec["terms_are_like"] = guarded(lambda: bool(util.terms_are_like(n.left, n.right)))

        def cfr():
            r2 = build(d)
            n2 = pre(r2)[i]
            c = n2.clone_from_root()
            top = c.get_root()
            idx2 = {id(x): j for j, x in enumerate(pre(top))}
            return [idx2[id(c)], full(top)]

        rec["clone_from_root"] = guarded(cfr)

        def rot():
            r2 = build(d)
            n2 = pre(r2)[i]
            n2.rotate()
            return full(n2.get_root())

        rec["rotate"] = guarded(rot)
        per.append(rec)
    out["nodes"] = per
    return out


def main():
    maxn = int(sys.argv[1])
    res = []
    for n in range(1, maxn + 1):
        for d in gen(n):
            res.append({"tree": d, "probes": probes(d)})
    fac = {}
    for v in list(range(-3, 61)) + [97, 100, 144, 360, 1001, 0.5, 2.5, -4.0]:
        fac[repr(v)] = guarded(lambda: sorted([num(k) + num(w) for k, w in util.factor(v).items()]))
    json.dump({"trees": res, "factor": fac}, sys.stdout)


if __name__ == "__main__":
    main()
