"""Engine differential test for the parser and tokenizer, native side: outcome of ExpressionParser().parse
(and of Tokenizer.tokenize in both padding modes) under CPython on a corpus of strings, as plain data."""
from __future__ import annotations

import itertools
import json
import random
import sys

from treelib import ExpressionParser  # type: ignore
from diff_native import desc_of  # type: ignore
from parse_tierb import ALPHABET, TARGETED, gen_sentence, realise  # type: ignore
from rules_sweep import TARGETED as RULE_TEXTS, TWO_STEP  # type: ignore

from mathy_core.tokenizer import Tokenizer


def main():
    maxlen = int(sys.argv[1])
    nrandom = int(sys.argv[2]) if len(sys.argv) > 2 else 300
    texts = []
    for n in range(0, maxlen + 1):
        for chars in itertools.product(ALPHABET, repeat=n):
            texts.append("".join(chars))
    rng = random.Random(7)
    for _ in range(nrandom):
        seq = gen_sentence(rng)
        texts.append(realise(seq, rng.choice(["", " "]))[0])
    texts += [t for t in TARGETED if len(t) < 200] + RULE_TEXTS + TWO_STEP + ["4x +\t2y", "x – 3", "[x + 1] * 2", "0.5x^2 + 0.5x^2", "12.5.3", "2^-3 + x", "-(2 + 3) * x"]
    out = []
    for s in texts:
        rec = {"text": s}
        try:
            rec["parse"] = desc_of(ExpressionParser().parse(s))
        except Exception as e:  # noqa: BLE001
            rec["parse"] = "raise:" + type(e).__name__
        for keep in (False, True):
            try:
                rec["tokens_padding" if keep else "tokens"] = [[t.type, t.value] for t in Tokenizer(exclude_padding=not keep).tokenize(s)]
            except Exception as e:  # noqa: BLE001
                rec["tokens_padding" if keep else "tokens"] = "raise:" + type(e).__name__
        out.append(rec)
    json.dump(out, sys.stdout)


if __name__ == "__main__":
    main()
