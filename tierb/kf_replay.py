"""Replay the stored witness of known findings on the real code: prints JSON {id: still_fails}."""
from __future__ import annotations

import json
import sys
from fractions import Fraction

from treelib import E, ExpressionParser, Undefined, close, exact_eval, nodes_inorder, variables  # type: ignore


def still_fails(w) -> bool:
    kind = w.get("kind", "rule" if "rule" in w else "value" if "expected" in w else "roundtrip")
    parser = ExpressionParser()
    if kind == "rule":
        from rules_tierb import check_application

        root = parser.parse(w["text"]).clone()
        node = [n for n in nodes_inorder(root) if str(n) == w["node"]][0]
        return bool(check_application(w["rule"], root, node))
    if kind == "value":
        v = parser.parse(w["text"]).evaluate(w.get("env") or {})
        return not close(Fraction(v).limit_denominator(10**9), Fraction(w["expected"]))
    if kind == "roundtrip":
        t = parser.parse(w["text"]).clone()
        env = {v: Fraction(3) + i for i, v in enumerate(sorted(variables(t)))}
        try:
            back = parser.parse(str(t))
            return not close(exact_eval(t, env), exact_eval(back, env)) or variables(back) != variables(t)
        except Exception:  # noqa: BLE001
            return True
    if kind == "rewrite-roundtrip":
        from rules_tierb import make_rule

        root = parser.parse(w["text"]).clone()
        rule = make_rule(w["rule"])
        node = [n for n in nodes_inorder(root) if str(n) == w["node"]][0]
        res = rule.apply_to(node.clone_from_root()).result.get_root()
        try:
            back = parser.parse(str(res))
            return variables(back) != variables(res)
        except Exception:  # noqa: BLE001
            return True
    if kind == "not-applicable":
        from rules_tierb import make_rule

        root = parser.parse(w["text"]).clone()
        node = [n for n in nodes_inorder(root) if str(n) == w["node"]][0]
        return not make_rule(w["rule"]).can_apply_to(node)
    if kind == "layout":
        from layout_tierb import clauses_for

        def parse_shape(s, i=0):
            if s[i] == ".":
                return None, i + 1
            assert s[i] == "("
            l, i = parse_shape(s, i + 1)
            r, i = parse_shape(s, i)
            assert s[i] == ")"
            return (l, r), i + 1

        sh, _ = parse_shape(w["shape"])
        return w["clause"] in clauses_for(sh, 1.0, 1.0)
    raise ValueError(kind)


def main():
    items = json.load(sys.stdin)
    out = {}
    for k in items:
        try:
            out[k["id"]] = bool(still_fails(k["witness"]))
        except Exception as e:  # noqa: BLE001
            out[k["id"]] = f"error: {type(e).__name__}: {e}"
    print(json.dumps(out))


if __name__ == "__main__":
    main()
