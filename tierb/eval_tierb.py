"""Bounded stand-in for C05 on the real evaluator: a grid of operand magnitudes per operator and
small trees over it, against exact rational arithmetic with an ulp budget for float results."""
from __future__ import annotations

import itertools
import json
import math
import sys
from fractions import Fraction

from treelib import E  # type: ignore

GRID = [0, 1, -1, 2, 3, 7, -5, 2**31, 2**53, 2**53 + 1, -(2**63), 2**63, 2**64 + 1, 10**30, 0.1, 0.5, -2.5, 1e300, 1e-300, 3.0, 1e16 + 2.0]
SMALL = [0, 1, -1, 2, 3, 0.5, -2.5, 2**62, 10**19]
ULPS = 8


def exact(op, a, b):
    A, B = Fraction(a), Fraction(b)
    if op == "+":
        return A + B
    if op == "-":
        return A - B
    if op == "*":
        return A * B
    if op == "/":
        return None if B == 0 else A / B
    raise ValueError(op)


CLS = {"+": "AddExpression", "-": "SubtractExpression", "*": "MultiplyExpression", "/": "DivideExpression", "^": "PowerExpression"}


def check_value(got, want: Fraction, all_int: bool, where, fails, clause):
    if all_int:
        if type(got) is not int or got != want:
            fails.append({"clause": clause, "detail": f"{where}: got {got!r} ({type(got).__name__}), exact integer result {want}"})
        return
    if isinstance(got, bool) or not isinstance(got, (int, float)) and type(got).__module__ != "numpy":
        fails.append({"clause": clause, "detail": f"{where}: got {got!r}"})
        return
    if hasattr(got, "dtype") and got.dtype.kind in "iu":
        fails.append({"clause": clause, "detail": f"{where}: fixed-width integer result {got!r}"})
        return
    w = float(want) if abs(want) < Fraction(10) ** 308 else None
    if w is None or (want != 0 and abs(want) < Fraction(1, 10**307)):
        return  # overflow / subnormal range: no claim
    g = float(got)
    if math.isnan(g) or math.isinf(g):
        fails.append({"clause": clause, "detail": f"{where}: got {got!r}, expected about {w!r}"})
        return
    tol = ULPS * math.ulp(w) if w != 0 else 5e-324 * ULPS
    if abs(Fraction(g) - want) > Fraction(tol):
        fails.append({"clause": clause, "detail": f"{where}: got {g!r}, exact {w!r} (more than {ULPS} ulps)"})


def main():
    tier = sys.argv[1] if len(sys.argv) > 1 else "quick"
    fails = []
    cases = 0
    C = E.ConstantExpression
    for a, b in itertools.product(GRID, GRID):
        for op in "+-*/":
            n = getattr(E, CLS[op])(C(a), C(b))
            cases += 1
            try:
                got = n.evaluate()
            except Exception as e:  # noqa: BLE001
                fails.append({"clause": f"operator {op}", "detail": f"{a!r} {op} {b!r} raised {type(e).__name__}: {e}"})
                continue
            want = exact(op, a, b)
            if want is None:
                if not (isinstance(got, float) and math.isnan(got)):
                    fails.append({"clause": "division by zero yields NaN", "detail": f"{a!r} / {b!r} gave {got!r}"})
                continue
            all_int = isinstance(a, int) and isinstance(b, int) and op != "/"
            check_value(got, want, all_int, f"{a!r} {op} {b!r}", fails, f"operator {op}")
    # integer powers
    for a in [0, 1, -1, 2, -2, 3, 7, 10, -5, 2**31, 2**53 + 1]:
        for b in [0, 1, 2, 3, 5, 20, 40, 63, 64, 65, 100]:
            cases += 1
            try:
                got = E.PowerExpression(C(a), C(b)).evaluate()
            except Exception as e:  # noqa: BLE001
                fails.append({"clause": "integer power", "detail": f"{a}^{b} raised {type(e).__name__}: {e}"})
                continue
            check_value(got, Fraction(a) ** b, True, f"{a}^{b}", fails, "integer power")
    for a, b, want in [(2, -3, Fraction(1, 8)), (4, 0.5, Fraction(2)), (2.0, 3, Fraction(8)), (10, -2, Fraction(1, 100)), (0.5, 2, Fraction(1, 4))]:
        cases += 1
        try:
            got = E.PowerExpression(C(a), C(b)).evaluate()
            check_value(got, want, False, f"{a}^{b}", fails, "power")
        except Exception as e:  # noqa: BLE001
            fails.append({"clause": "power", "detail": f"{a}^{b} raised {type(e).__name__}: {e}"})
    # factorials, negation, abs, sgn
    for k in [0, 1, 5, 20, 21, 25, 30, 50]:
        cases += 1
        got = E.FactorialExpression(C(k)).evaluate()
        check_value(got, Fraction(math.factorial(k)), True, f"{k}!", fails, "factorial")
    for a in GRID:
        cases += 3
        isint = isinstance(a, int)
        check_value(E.NegateExpression(C(a)).evaluate(), -Fraction(a), isint, f"-({a!r})", fails, "negation")
        check_value(E.AbsExpression(C(a)).evaluate(), abs(Fraction(a)), isint, f"abs({a!r})", fails, "abs")
        check_value(E.SgnExpression(C(a)).evaluate(), Fraction((a > 0) - (a < 0)), True, f"sgn({a!r})", fails, "sgn")
    # variables
    V = E.VariableExpression
    for ctx, ok in [(None, False), ({}, False), ({"y": 1}, False), ({"x": None}, False), ({"x": 0}, True), ({"x": 0.0}, True), ({"x": 2**70}, True)]:
        cases += 1
        try:
            got = V("x").evaluate(ctx)
            if not ok:
                fails.append({"clause": "unbound variable is an error", "detail": f"x with {ctx!r} evaluated to {got!r}"})
            elif got != ctx["x"] or type(got) is not type(ctx["x"]):
                fails.append({"clause": "variable value", "detail": f"x with {ctx!r} evaluated to {got!r}"})
        except ValueError:
            if ok:
                fails.append({"clause": "variable value", "detail": f"x with {ctx!r} raised ValueError"})
        except Exception as e:  # noqa: BLE001
            fails.append({"clause": "unbound variable is an error", "detail": f"x with {ctx!r} raised {type(e).__name__}"})
    # equations
    for a, b in [(2, 2), (2, 3), (0.5, 0.5), (2**70, 2**70), (2**70, 2**70 + 1), (10**12, 10**12 + 1), (1e-300, 1.0000000001e-300)]:
        cases += 1
        try:
            got = E.EqualExpression(C(a), C(b)).evaluate()
            if a != b:
                fails.append({"clause": "equation with different sides raises", "detail": f"{a!r} = {b!r} evaluated to {got!r}"})
            elif got != a:
                fails.append({"clause": "equation value", "detail": f"{a!r} = {b!r} evaluated to {got!r}"})
        except ValueError:
            if a == b:
                fails.append({"clause": "equation value", "detail": f"{a!r} = {b!r} raised"})
    # strictness: errors / NaN of a sub-expression are not swallowed by its context
    x = V("x")
    for outer in (lambda t: E.MultiplyExpression(C(0), t), lambda t: E.MultiplyExpression(t, C(0)), lambda t: E.AddExpression(C(1), E.MultiplyExpression(E.SubtractExpression(C(3), C(3)), t))):
        cases += 2
        try:
            got = outer(V("y")).evaluate({"x": 3})
            fails.append({"clause": "unbound variable is an error", "detail": f"{outer(V('y'))} with y unbound evaluated to {got!r}"})
        except ValueError:
            pass
        got = outer(E.DivideExpression(C(1), C(0))).evaluate({})
        if not (isinstance(got, float) and math.isnan(got)):
            fails.append({"clause": "division by zero yields NaN", "detail": f"{outer(E.DivideExpression(C(1), C(0)))} evaluated to {got!r}"})
    # division by a zero that is NOT a Python literal: produced by a power / abs / float operation
    # (numpy scalars divide by zero without raising), numerators of both kinds
    P, S, M, D, A = E.PowerExpression, E.SubtractExpression, E.MultiplyExpression, E.DivideExpression, E.AbsExpression
    zero_makers = [
        (lambda: P(x, C(2)), {"x": 0.0}), (lambda: P(x, C(2)), {"x": 0}), (lambda: P(x, C(0.5)), {"x": 0.0}), (lambda: S(P(C(2), x), C(0.5)), {"x": -1}),
        (lambda: S(P(C(4), x), C(2)), {"x": 0.5}), (lambda: A(x), {"x": 0.0}), (lambda: M(x, C(1.0)), {"x": 0}), (lambda: S(P(x, C(3)), C(8.0)), {"x": 2.0}),
        (lambda: E.NegateExpression(P(x, C(2))), {"x": 0.0}), (lambda: S(x, x), {"x": 1.5}),
    ]
    for mk, env in zero_makers:
        for num in (C(1), C(0), C(-2), C(2.5), P(C(2), C(0.5)), x):
            cases += 1
            t = D(num, mk())
            try:
                got = t.evaluate(dict(env))
            except Exception as e:  # noqa: BLE001
                fails.append({"clause": "division by zero yields NaN", "detail": f"`{t}` at {env} raised {type(e).__name__}"})
                continue
            if not (isinstance(got, float) and math.isnan(got)):
                fails.append({"clause": "division by zero yields NaN", "detail": f"`{t}` at {env} evaluated to {got!r}"})
    # histories: the value of one evaluation must not depend on what was evaluated before in the same process
    # (equal numbers of different type: 10 and 10.0 compare and hash equal - a cache keyed by value confuses them)
    for a, b in [(10, 25), (3, 40), (7, 30), (2, 70), (12, 20), (-5, 27)]:
        for first_float in (True, False):
            cases += 2
            order = [float(a), a] if first_float else [a, float(a)]
            for base in order:
                got = P(x, C(b)).evaluate({"x": base})
                if isinstance(base, int):
                    if not (isinstance(got, int) and not isinstance(got, bool) and got == a**b):
                        fails.append({"clause": "exact integer power", "detail": f"x^{b} at x={a!r} evaluated to {got!r} ({type(got).__name__}) after x={order[0]!r} had been evaluated; exact value {a**b}"})
                elif not isinstance(got, float):
                    fails.append({"clause": "float operand gives a float", "detail": f"x^{b} at x={float(a)!r} evaluated to {got!r} ({type(got).__name__}) after x={order[0]!r} had been evaluated"})
        for op_cls, f in ((E.AddExpression, lambda u, v: u + v), (E.MultiplyExpression, lambda u, v: u * v)):
            cases += 2
            g1 = op_cls(x, C(b)).evaluate({"x": float(a)})
            g2 = op_cls(x, C(b)).evaluate({"x": a})
            if not (isinstance(g2, int) and g2 == f(a, b)) or not isinstance(g1, float):
                fails.append({"clause": "value does not depend on earlier evaluations", "detail": f"{op_cls.__name__}: {g1!r} then {g2!r} for x={float(a)!r} then x={a!r}"})
    # exact integers far beyond the double range under the sign / absolute value / negation nodes
    for big in (10**400, -(10**400), 2**1024, -(2**1024) - 1, math.factorial(200)):
        for cls_, want in ((E.SgnExpression, (big > 0) - (big < 0)), (E.AbsExpression, abs(big)), (E.NegateExpression, -big)):
            cases += 1
            for tree, label in ((cls_(x), "x"), (cls_(S(x, C(1))), "x - 1")):
                w = want if label == "x" else ((big - 1 > 0) - (big - 1 < 0) if cls_ is E.SgnExpression else abs(big - 1) if cls_ is E.AbsExpression else -(big - 1))
                try:
                    got = tree.evaluate({"x": big})
                except Exception as e:  # noqa: BLE001
                    fails.append({"clause": "huge exact integers", "detail": f"`{tree}` at x = {str(big)[:12]}... ({len(str(abs(big)))} digits) raised {type(e).__name__}"})
                    continue
                if not (isinstance(got, int) and got == w):
                    fails.append({"clause": "huge exact integers", "detail": f"`{tree}` at x = {str(big)[:12]}... gave {str(got)[:30]} ({type(got).__name__})"})
    # small trees (two operators) over a small grid: exact integer arithmetic through nesting
    depth_vals = SMALL if tier == "quick" else SMALL + [2**63 - 1, -(2**63)]
    for a, b, c in itertools.product(depth_vals, repeat=3):
        for o1, o2 in itertools.product("+-*", repeat=2):
            cases += 1
            n = getattr(E, CLS[o2])(getattr(E, CLS[o1])(C(a), C(b)), C(c))
            got = n.evaluate()
            want = exact(o2, exact(o1, a, b), c)
            all_int = all(isinstance(v, int) for v in (a, b, c))
            if all_int:
                check_value(got, want, True, f"({a!r} {o1} {b!r}) {o2} {c!r}", fails, "nested integer arithmetic")
    seen = {}
    for f in fails:
        key = (f["clause"], f["detail"].split(":")[0][:40])
        seen.setdefault(key, f)
    out = list(seen.values())
    print(json.dumps({"cases": cases, "grid": [repr(g) for g in GRID], "ulp_budget": ULPS, "failures": out[:40], "n_failures": len(fails)}))
    sys.exit(1 if fails else 0)


if __name__ == "__main__":
    main()
