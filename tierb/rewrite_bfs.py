"""Bounded cross-check for C09 (and the print/re-parse clause of C04 on rewritten trees):
breadth-first rewriting from a corpus of start strings, every rule configuration at every
applicable node, each step applied to a copy cloned from the root as search agents do."""
from __future__ import annotations

import json
import multiprocessing as mp
import os
import sys
import time
from fractions import Fraction

from treelib import (  # type: ignore
    ASSIGNMENTS,
    E,
    REPO,
    ExpressionParser,
    Undefined,
    close,
    exact_eval,
    holds,
    kind,
    nodes_inorder,
    path_of,
    snapshot,
    variables,
    wf_problems,
)
from rules_tierb import RULES, make_rule, evaluate  # type: ignore


def corpus():
    out = []
    rules_dir = os.path.join(REPO, "mathy_core", "rules")
    for fn in sorted(os.listdir(rules_dir)):
        if fn.endswith(".test.json"):
            d = json.load(open(os.path.join(rules_dir, fn)))
            for ex in d.get("valid", []):
                out.append((ex["input"], ex.get("eval_context")))
    extra = [
        ("2 * (x + 3) = 4", {"x": -1}), ("x + 2 + 3 = 7", {"x": 2}), ("7 = x + (2 + 3)", {"x": 2}), ("(x + 1)^2 = 4", {"x": 1}),
        ("3^39 * 3", None), ("(2 + 4) * 4611686018427387904", None), ("4 / 0 + x", None), ("a - -(x^2)", None), ("x^0 + x", None),
        ("0.5x^2 + 0.5x^2", None), ("y + y^0", None), ("5 - (2 + x)", None), ("2^-3 + x", None), ("8 / 4 * 2", None), ("(x / y) * z", None), ("x + 1 / 40000", None), ("0.00002x + 1", None),
        ("-(2 + 3) * x", None), ("(2x)^2", None), ("4x * 2y * 5x", None), ("x * (y + 2)", None), ("(c + d) * (a + b)", None), ("3x = 9", {"x": 3}),
    ]
    seen = set()
    res = []
    for t, ctx in out + extra:
        if t not in seen and len(t) < 60:
            seen.add(t)
            res.append((t, ctx))
    return res


def envs_for(root, ctx):
    vs = sorted(variables(root))
    envs = []
    if ctx:
        base = {v: Fraction(ctx.get(v, 1)) for v in vs}
        envs.append(base)
        envs.append({v: base[v] + 1 for v in vs})
    for k, seedvals in enumerate(([2, 3, 5, 7, 11, 13], [Fraction(-1, 2), 5, Fraction(3, 4), -2, 9, 4], [7, Fraction(-3), 2, 6, Fraction(1, 3), 8])):
        envs.append({v: Fraction(seedvals[i % 6]) for i, v in enumerate(vs)})
    return envs


def equivalent(a_vals, b_vals, is_eq):
    for a, b in zip(a_vals, b_vals):
        if a is None or b is None:
            continue
        if is_eq:
            if not (isinstance(a, tuple) and isinstance(b, tuple)):
                return False
            if holds(a) != holds(b):
                return False
        else:
            if isinstance(a, tuple) or isinstance(b, tuple) or not close(a, b):
                return False
    return True


def S(x):
    """Text of a tree for messages; an ill-formed tree may not print at all."""
    try:
        return str(x)
    except Exception as e:  # noqa: BLE001
        return f"<does not print: {type(e).__name__}: {e}>"[:120]


def explore(args):
    text, ctx, depth, cap = args
    fails = []
    parser = ExpressionParser()
    try:
        start = parser.parse(text).clone()
    except Exception as e:  # noqa: BLE001
        return {"text": text, "states": 0, "steps": 0, "failures": [{"clause": "corpus", "detail": f"{text}: {type(e).__name__}"}]}
    is_eq = kind(start) == "EqualExpression"
    envs = envs_for(start, ctx)
    start_vals = [evaluate(start, e) for e in envs]
    start_vars = variables(start)
    seen = {str(start)}
    frontier = [(start, [text])]
    states = 1
    steps = 0
    history = [(start, snapshot(start), text)]
    rules = {name: make_rule(name) for name in RULES}
    for d in range(depth):
        nxt = []
        for root, hist in frontier:
            big = any(kind(n) == "ConstantExpression" and isinstance(n.value, int) and abs(n.value) > 2**40 for n in nodes_inorder(root))
            for rname, rule in rules.items():
                if big and rname.startswith("distributive_factor_out"):
                    # util.factor is trial division up to sqrt(n): minutes per call beyond 2^40 (stated bound of this run);
                    # its TypeError beyond 64 bits is replayed from the known-findings witness instead
                    continue
                try:
                    targets = rule.find_nodes(root)
                except Exception as e:  # noqa: BLE001
                    fails.append({"clause": "find_nodes raised", "detail": f"{rname} on `{S(root)}` (from {hist}): {type(e).__name__}"})
                    continue
                for n in targets:
                    steps += 1
                    try:
                        work = n.clone_from_root()
                    except Exception as e:  # noqa: BLE001
                        fails.append({"clause": "clone/locates-node", "cfg": rname, "detail": f"clone_from_root of `{S(n)}` in `{S(root)}` raised {type(e).__name__} (history {hist})"[:400]})
                        continue
                    if path_of(work) != path_of(n) or kind(work) != kind(n):
                        fails.append({"clause": "clone/locates-node", "cfg": rname, "detail": f"clone_from_root of `{S(n)}` (path '{path_of(n)}') in `{S(root)}` returned the node at '{path_of(work)}' (history {hist})"[:400]})
                        continue
                    try:
                        res = rule.apply_to(work).result.get_root()
                    except Exception as e:  # noqa: BLE001
                        fails.append({"clause": "C06 apply_to raised", "cfg": rname, "detail": f"{rname} at `{S(n)}` of `{S(root)}` (history {hist}): {type(e).__name__}: {e}"[:300]})
                        continue
                    payload = []
                    probs = wf_problems(res, payload=payload)
                    where = f"{rname} at `{S(n)}` of `{S(root)}` -> `{S(res)}` (history {hist})"
                    if probs:
                        fails.append({"clause": "C07 structure", "cfg": rname, "detail": f"{'; '.join(probs[:2])}: {where}"[:400]})
                        continue
                    if payload:
                        fails.append({"clause": "closure/constant-payload", "cfg": rname, "detail": f"{'; '.join(payload[:2])}: {where}"[:400]})
                        continue
                    vals = [evaluate(res, e) for e in envs]
                    if not equivalent(start_vals, vals, is_eq):
                        fails.append({"clause": "equivalent-to-start", "cfg": rname, "detail": where[:400]})
                        continue
                    if variables(res) != start_vars:
                        fails.append({"clause": "same-variables", "cfg": rname, "detail": where[:400]})
                    # print / re-parse
                    try:
                        txt = str(res)
                    except Exception as e:  # noqa: BLE001
                        fails.append({"clause": "prints-and-reparses", "cfg": rname, "detail": f"printing raised {type(e).__name__}: {where}"[:400]})
                        continue
                    try:
                        back = parser.parse(txt)
                        bvals = [evaluate(back, e) for e in envs]
                        if not equivalent(vals, bvals, is_eq) or variables(back) != variables(res):
                            fails.append({"clause": "prints-and-reparses", "cfg": rname, "detail": f"`{txt}` re-parses to a different expression: {where}"[:400]})
                    except Exception as e:  # noqa: BLE001
                        fails.append({"clause": "prints-and-reparses", "cfg": rname, "detail": f"`{txt}` rejected by the parser ({type(e).__name__}): {where}"[:400]})
                    if txt not in seen and states < cap:
                        seen.add(txt)
                        states += 1
                        nxt.append((res, hist + [f"{rname}@{S(n)}"]))
                        history.append((res, snapshot(res), txt))
        frontier = nxt
    # earlier states never altered
    for root, snap, txt in history:
        if snapshot(root) != snap:
            fails.append({"clause": "earlier-states-unchanged", "detail": f"state `{txt}` reached from `{text}` was modified by a later step"})
    return {"text": text, "states": states, "steps": steps, "failures": fails}


def main():
    depth = int(sys.argv[1])
    cap = int(sys.argv[2])
    nproc = int(sys.argv[3]) if len(sys.argv) > 3 else 16
    t0 = time.time()
    items = [(t, c, depth, cap) for t, c in corpus()]
    out = []
    with mp.get_context("fork").Pool(nproc) as pool:
        for r in pool.imap_unordered(explore, items):
            out.append(r)
    fails = []
    for r in out:
        fails += r["failures"]
    seen = {}
    for f in fails:
        key = (f["clause"], f.get("cfg", ""), f["detail"][:60])
        seen.setdefault(key, f)
    print(json.dumps({"starts": len(items), "states": sum(r["states"] for r in out), "steps": sum(r["steps"] for r in out), "depth": depth,
                      "state_cap_per_start": cap, "failures": list(seen.values())[:200], "n_failures": len(fails), "seconds": time.time() - t0}))


if __name__ == "__main__":
    main()
