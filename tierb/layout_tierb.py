"""Bounded stand-in for C18 on the real TreeLayout: all binary tree shapes up to N nodes, two
unit multipliers, laid out twice and mirrored.  Output: the failing (shape, clause) pairs."""
from __future__ import annotations

import json
import sys

from tree_tierb import BinaryTreeNode, shapes  # type: ignore

from mathy_core.layout import TreeLayout


def build(shape):
    if shape is None:
        return None
    n = BinaryTreeNode()
    l, r = build(shape[0]), build(shape[1])
    if l is not None:
        n.set_left(l)
    if r is not None:
        n.set_right(r)
    return n


def mirror(shape):
    if shape is None:
        return None
    return (mirror(shape[1]), mirror(shape[0]))


def canon(shape):
    if shape is None:
        return "."
    return "(" + canon(shape[0]) + canon(shape[1]) + ")"


def nodes_with_depth(n, d=0, path="", out=None):
    if out is None:
        out = []
    if n is None:
        return out
    out.append((n, d, path))
    nodes_with_depth(n.left, d + 1, path + "L", out)
    nodes_with_depth(n.right, d + 1, path + "R", out)
    return out


EPS = 1e-9


def clauses_for(shape, ux, uy):
    """Returns the set of violated clause names for this shape."""
    bad = set()
    root = build(shape)
    try:
        m = TreeLayout().layout(root, ux, uy)
    except Exception as e:  # noqa: BLE001
        return {f"raises-{type(e).__name__}"}
    nd = nodes_with_depth(root)
    coords = {p: (n.x, n.y) for n, d, p in nd}
    for n, d, p in nd:
        if n.x is None or n.y is None:
            bad.add("coordinates-assigned")
            return bad
        if abs(n.y - d * uy) > EPS:
            bad.add("y-is-depth-times-unit")
        if n.left is not None and not (n.left.x < n.x - EPS):
            bad.add("left-child-strictly-left")
        if n.right is not None and not (n.right.x > n.x + EPS):
            bad.add("right-child-strictly-right")
        if n.left is not None and n.right is not None and abs((n.left.x + n.right.x) / 2 - n.x) > EPS:
            bad.add("parent-centred-over-two-children")
    # level order: nodes of one level left-to-right at least one unit apart
    levels = {}
    for n, d, p in nd:
        levels.setdefault(d, []).append((p, n.x))
    for d, row in levels.items():
        row.sort(key=lambda t: [0 if c == "L" else 1 for c in t[0]])  # left-to-right order by path
        for (p1, x1), (p2, x2) in zip(row, row[1:]):
            if x2 - x1 < ux - EPS:
                bad.add("level-order-at-least-one-unit-apart")
    xs = [n.x for n, _, _ in nd]
    ys = [n.y for n, _, _ in nd]
    if abs(m.minX - min(xs)) > EPS or abs(m.maxX - max(xs)) > EPS or abs(m.minY - min(ys)) > EPS or abs(m.maxY - max(ys)) > EPS:
        bad.add("bounds-are-the-bounding-box")
    if abs(m.width - (max(xs) - min(xs))) > EPS or abs(m.height - (max(ys) - min(ys))) > EPS:
        bad.add("bounds-are-the-bounding-box")
    # repeatable: lay the same nodes out again
    try:
        TreeLayout().layout(root, ux, uy)
        again = {p: (n.x, n.y) for n, d, p in nodes_with_depth(root)}
        if any(abs(again[p][0] - coords[p][0]) > EPS or abs(again[p][1] - coords[p][1]) > EPS for p in coords):
            bad.add("repeatable")
    except Exception:  # noqa: BLE001
        bad.add("repeatable")
    # shape only, whatever was laid out before: every proper subtree is laid out on its own first (as when a
    # laid-out tree is grafted under a new parent), then the whole tree - same coordinates as the fresh layout
    root2 = build(shape)
    try:
        inner = [n for n, d, p in nodes_with_depth(root2) if d > 0 and (n.left is not None or n.right is not None)]
        for sub in reversed(inner):
            TreeLayout().layout(sub, ux, uy)
        TreeLayout().layout(root2, ux, uy)
        c2 = {p: (n.x, n.y) for n, d, p in nodes_with_depth(root2)}
        if any(abs(c2[p][0] - coords[p][0]) > EPS or abs(c2[p][1] - coords[p][1]) > EPS for p in coords):
            bad.add("independent-of-earlier-layouts-of-subtrees")
    except Exception:  # noqa: BLE001
        bad.add("independent-of-earlier-layouts-of-subtrees")
    # mirror symmetry (fresh nodes)
    mroot = build(mirror(shape))
    try:
        TreeLayout().layout(mroot, ux, uy)
        mc = {p: (n.x, n.y) for n, d, p in nodes_with_depth(mroot)}
        flip = str.maketrans("LR", "RL")
        if any(abs(mc[p.translate(flip)][0] + coords[p][0]) > EPS or abs(mc[p.translate(flip)][1] - coords[p][1]) > EPS for p in coords):
            bad.add("mirror-symmetric")
    except Exception:  # noqa: BLE001
        bad.add("mirror-symmetric")
    return bad


def full_shapes(n):
    """Full binary trees (every node has 0 or 2 children) with exactly n nodes (n odd)."""
    if n == 1:
        yield (None, None)
        return
    for nl in range(1, n - 1, 2):
        for l in full_shapes(nl):
            for r in full_shapes(n - 1 - nl):
                yield (l, r)


def main():
    maxn = int(sys.argv[1])
    maxfull = int(sys.argv[2]) if len(sys.argv) > 2 else 0
    out = {}
    nshapes = 0
    import itertools

    fam = itertools.chain((sh for n in range(1, maxn + 1) for sh in shapes(n)), (sh for n in range(maxn + 1 + (maxn % 2), maxfull + 1, 2) for sh in full_shapes(n)))
    for sh in fam:
        nshapes += 1
        bad = set()
        for ux, uy in ((1.0, 1.0), (2.5, 2.0)):
            bad |= clauses_for(sh, ux, uy)
        if bad:
            out[canon(sh)] = sorted(bad)
    print(json.dumps({"max_nodes": maxn, "max_nodes_full_trees": maxfull, "shapes": nshapes, "unit_multipliers": [[1.0, 1.0], [2.5, 2.0]], "failing": out}))


if __name__ == "__main__":
    main()
