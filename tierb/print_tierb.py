"""Bounded stand-in for C04: every WF tree of the scope is printed, re-parsed by the real parser and
compared by exact value at several assignments, by solution set for equations, and by variable set."""
from __future__ import annotations

import json
import multiprocessing as mp
import sys
from fractions import Fraction

from treelib import E, ExpressionParser, Undefined, close, exact_eval, gen_trees, holds, kind, realise, variables  # type: ignore

LEAVES = [("c", 0), ("c", 2), ("c", -3), ("c", 0.5), ("c", 10**21), ("c", 2.5e-05), ("v", "x"), ("v", "y")]
ENVS = [{"x": Fraction(2), "y": Fraction(3)}, {"x": Fraction(-1, 2), "y": Fraction(5)}, {"x": Fraction(7), "y": Fraction(-3)}]
UN = ["NegateExpression", "AbsExpression", "SgnExpression", "FactorialExpression"]


def ev(t, env):
    try:
        return exact_eval(t, env)
    except (Undefined, OverflowError, ZeroDivisionError, ValueError):
        return None


def parser_reachable(t):
    """abs is not a registered function name: trees containing it cannot come from the parser and are
    only reachable through constructors - outside C04's quantifier."""
    if kind(t) == "AbsExpression":
        return False
    if kind(t) == "FactorialExpression" and kind(t.get_child()) != "ConstantExpression":
        return False
    return all(parser_reachable(c) for c in (t.left, t.right) if c is not None)


def reference_reading(text, env):
    """Value of the text under the documented grammar (left-to-right * and /), tokenized by the real tokenizer."""
    import os
    sys.path.insert(0, os.path.dirname(os.path.dirname(os.path.abspath(__file__))))
    from contracts.grammar import spec_parse
    from parse_tierb import spec_value
    from mathy_core.tokenizer import TOKEN_TYPES, Tokenizer

    names = {getattr(TOKEN_TYPES, k): k for k in dir(TOKEN_TYPES) if not k.startswith("_")}
    toks = [t for t in Tokenizer().tokenize(text) if names[t.type] != "EOF"]
    types = [names[t.type] for t in toks]
    vals = {}
    for i, t in enumerate(toks):
        if names[t.type] == "Constant":
            vals[i] = Fraction(t.value)
        elif names[t.type] == "Variable":
            vals[i] = t.value
    spec = spec_parse(types)
    if spec is None:
        return None
    try:
        return spec_value(spec, vals, env)
    except Exception:  # noqa: BLE001
        return None


def neg_quotient_left(t):
    """The one shape for which the unchanged printer emits text that only the documented grammar reads
    correctly: a negation of a multiplicative chain that contains a division, standing as the LEFT operand
    of * or / (without the negation the printer parenthesises such a left operand)."""
    if t is None:
        return False
    def chain_has_div(c):
        if c is None:
            return False
        if kind(c) == "DivideExpression":
            return True
        return kind(c) == "MultiplyExpression" and (chain_has_div(c.left) or chain_has_div(c.right))

    if kind(t) in ("MultiplyExpression", "DivideExpression") and t.left is not None and kind(t.left) == "NegateExpression":
        if chain_has_div(t.left.get_child()):
            return True
    return neg_quotient_left(t.left) or neg_quotient_left(t.right)


def roundtrip(t, desc, parser, fails):
    if True:
        text = str(t)
        try:
            back = parser.parse(text)
        except Exception as e:  # noqa: BLE001
            fails.append({"clause": "text-is-accepted", "detail": f"`{text}` (tree {desc}) rejected: {type(e).__name__}"})
            return
        if variables(back) != variables(t):
            fails.append({"clause": "same-variables", "detail": f"`{text}`: {sorted(variables(t))} -> {sorted(variables(back))}"})
            return
        for env in ENVS:
            a, b = ev(t, env), ev(back, env)
            if a is None and b is None:
                continue
            if a is None or b is None:
                ref = reference_reading(text, env)
                tag = "parser-right-fold: " if (neg_quotient_left(t) and (ref is None) == (a is None) and (ref is None or isinstance(ref, tuple) or close(ref, a))) else ""
                fails.append({"clause": "same-value", "detail": f"{tag}`{text}` (tree {desc}): defined-ness differs at {env}"})
                break
            if isinstance(a, tuple) or isinstance(b, tuple):
                if not (isinstance(a, tuple) and isinstance(b, tuple) and holds(a) == holds(b) and close(a[1], b[1]) and close(a[2], b[2])):
                    fails.append({"clause": "same-value", "detail": f"`{text}` (tree {desc}): equation sides differ after re-parsing"})
                    break
            elif not close(a, b):
                ref = reference_reading(text, env)
                tag = "parser-right-fold: " if (neg_quotient_left(t) and ref is not None and not isinstance(ref, tuple) and close(ref, a)) else ""
                fails.append({"clause": "same-value", "detail": f"{tag}`{text}` (tree {desc}) evaluates to {float(a)} but its text re-parses to `{back}` = {float(b)} at {env}"})
                break


def work(chunk):
    fails = []
    n = 0
    parser = ExpressionParser()
    for desc in chunk:
        t = realise(desc)
        if not parser_reachable(t):
            continue
        n += 1
        roundtrip(t, desc, parser, fails)
    return n, fails


# ---- rewritten forms: Op1(A, Op2(B, C)) and Op1(Op2(B, C), A) over operand shapes, every rule at every node,
# the RESULT OBJECT of apply_to printed as it is (not re-cloned: parent links are what the printer reads)
SHAPES = [("c", 2), ("v", "x"), ("NegateExpression", ("v", "x")), ("DivideExpression", ("v", "x"), ("c", 2)), ("MultiplyExpression", ("c", 3), ("v", "y")),
          ("PowerExpression", ("v", "y"), ("c", 2)), ("AddExpression", ("v", "y"), ("c", 3)), ("c", -3)]
OPS2 = ["AddExpression", "SubtractExpression", "MultiplyExpression", "DivideExpression", "PowerExpression"]


def rewritten_forms(nshapes):
    sh = SHAPES[:nshapes]
    out = []
    for o1 in OPS2:
        for o2 in OPS2:
            for a in sh:
                for b in sh:
                    for c in sh:
                        out.append((o1, a, (o2, b, c)))
                        out.append((o1, (o2, b, c), a))
    for a in sh:
        for b in sh:
            out.append(("NegateExpression", ("SubtractExpression", a, b)))
            out.append(("SubtractExpression", a, ("NegateExpression", b)))
            for o1 in ("AddExpression", "MultiplyExpression"):
                out.append(("EqualExpression", (o1, a, b), ("c", 7)))
    return out


def wrapped_forms(nshapes):
    """Three-level forms with a sign / function / factorial between two operators (deeper than the node
    bound of the plain enumeration): Op1(A, U(Op2(B, C))), Op1(U(Op2(B, C)), A), U(Op1(A, Op2(B, C))), U(Op1(Op2(B, C), A))."""
    sh = SHAPES[:nshapes]
    out = []
    for u in ("NegateExpression", "SgnExpression"):
        for o1 in OPS2:
            for o2 in OPS2:
                for a in sh:
                    for b in sh:
                        for c in sh:
                            inner = (o2, b, c)
                            out.append((o1, a, (u, inner)))
                            out.append((o1, (u, inner), a))
                            out.append((u, (o1, a, inner)))
                            out.append((u, (o1, inner, a)))
    # factorial of a literal next to / below operators and signs
    for o1 in OPS2:
        for a in sh:
            for lit in (("c", 0), ("c", 3)):
                f = ("FactorialExpression", lit)
                out += [(o1, f, a), (o1, a, f), ("NegateExpression", (o1, f, a)), ("NegateExpression", (o1, a, f)), (o1, ("NegateExpression", f), a), (o1, a, ("NegateExpression", f))]
    return out


def work_rewritten(chunk):
    from rules_tierb import RULES, make_rule
    from treelib import nodes_inorder

    fails = []
    n = 0
    parser = ExpressionParser()
    rules = {name: make_rule(name) for name in RULES}
    for desc in chunk:
        root = realise(desc)
        nodes = nodes_inorder(root)
        for rname, rule in rules.items():
            for i, node in enumerate(nodes):
                try:
                    if not rule.can_apply_to(node):
                        continue
                    fresh = realise(desc)
                    res = rule.apply_to(nodes_inorder(fresh)[i]).result.get_root()
                except Exception:  # noqa: BLE001  (C06's business)
                    continue
                if not parser_reachable(res):
                    continue
                n += 1
                mine = []
                try:
                    roundtrip(res, f"{rname} at `{node}` of `{root}`", parser, mine)
                except Exception as e:  # noqa: BLE001
                    mine.append({"clause": "text-is-accepted", "detail": f"printing the result of {rname} at `{node}` of `{root}` raised {type(e).__name__}"})
                fails += mine
    return n, fails


def main():
    maxn = int(sys.argv[1])
    maxside = int(sys.argv[2])
    descs = []
    for n in range(1, maxn + 1):
        descs += list(gen_trees(n, LEAVES, None, UN))
    sides = []
    for n in range(1, maxside + 1):
        sides += list(gen_trees(n, LEAVES[:3] + LEAVES[6:], None, UN[:1]))
    descs += [("EqualExpression", l, r) for l in sides for r in sides]
    size = max(1, len(descs) // 128)
    chunks = [descs[i : i + size] for i in range(0, len(descs), size)]
    total = 0
    fails = []
    with mp.get_context("fork").Pool(16) as pool:
        for n, f in pool.imap_unordered(work, chunks):
            total += n
            fails += f
    nshapes = int(sys.argv[3]) if len(sys.argv) > 3 else 6
    forms = rewritten_forms(nshapes)
    size = max(1, len(forms) // 128)
    rewritten = 0
    with mp.get_context("fork").Pool(16) as pool:
        for n, f in pool.imap_unordered(work_rewritten, [forms[i : i + size] for i in range(0, len(forms), size)]):
            rewritten += n
            fails += f
    wforms = wrapped_forms(nshapes)
    size = max(1, len(wforms) // 128)
    wrapped = 0
    with mp.get_context("fork").Pool(16) as pool:
        for n, f in pool.imap_unordered(work, [wforms[i : i + size] for i in range(0, len(wforms), size)]):
            wrapped += n
            fails += f
    seen = {}
    for f in fails:
        key = (f["clause"], f["detail"].split(" (tree")[0][:40])
        seen.setdefault(key, f)
        seen[key]["count"] = seen[key].get("count", 0) + 1
    print(json.dumps({"trees": total, "rewritten_forms": len(forms), "rewritten_results": rewritten, "wrapped_forms": wrapped, "operand_shapes": nshapes, "max_nodes": maxn, "max_equation_side_nodes": maxside, "leaves": [str(x) for x in LEAVES], "failures": list(seen.values())[:80], "n_failures": len(fails)}))
    sys.exit(1 if fails else 0)


if __name__ == "__main__":
    main()
