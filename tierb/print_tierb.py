"""Bounded stand-in for C04: every WF tree of the scope is printed, re-parsed by the real parser and
compared by exact value at several assignments, by solution set for equations, and by variable set."""
from __future__ import annotations

import json
import multiprocessing as mp
import sys
from fractions import Fraction

from treelib import E, ExpressionParser, Undefined, close, exact_eval, gen_trees, holds, kind, realise, variables  # type: ignore

LEAVES = [("c", 0), ("c", 2), ("c", -3), ("c", 0.5), ("c", 10**21), ("c", 2.5e-05), ("v", "x"), ("v", "y")]
ENVS = [{"x": Fraction(2), "y": Fraction(3)}, {"x": Fraction(-1, 2), "y": Fraction(5)}, {"x": Fraction(7), "y": Fraction(-3)}]
UN = ["NegateExpression", "AbsExpression", "SgnExpression", "FactorialExpression"]


def ev(t, env):
    try:
        return exact_eval(t, env)
    except (Undefined, OverflowError, ZeroDivisionError, ValueError):
        return None


def parser_reachable(t):
    """abs is not a registered function name: trees containing it cannot come from the parser and are
    only reachable through constructors - outside C04's quantifier."""
    if kind(t) == "AbsExpression":
        return False
    if kind(t) == "FactorialExpression" and kind(t.get_child()) != "ConstantExpression":
        return False
    return all(parser_reachable(c) for c in (t.left, t.right) if c is not None)


def reference_reading(text, env):
    """Value of the text under the documented grammar (left-to-right * and /), tokenized by the real tokenizer."""
    import os
    sys.path.insert(0, os.path.dirname(os.path.dirname(os.path.abspath(__file__))))
    from contracts.grammar import spec_parse
    from parse_tierb import spec_value
    from mathy_core.tokenizer import TOKEN_TYPES, Tokenizer

    names = {getattr(TOKEN_TYPES, k): k for k in dir(TOKEN_TYPES) if not k.startswith("_")}
    toks = [t for t in Tokenizer().tokenize(text) if names[t.type] != "EOF"]
    types = [names[t.type] for t in toks]
    vals = {}
    for i, t in enumerate(toks):
        if names[t.type] == "Constant":
            vals[i] = Fraction(t.value)
        elif names[t.type] == "Variable":
            vals[i] = t.value
    spec = spec_parse(types)
    if spec is None:
        return None
    try:
        return spec_value(spec, vals, env)
    except Exception:  # noqa: BLE001
        return None


def work(chunk):
    fails = []
    n = 0
    parser = ExpressionParser()
    for desc in chunk:
        t = realise(desc)
        if not parser_reachable(t):
            continue
        n += 1
        text = str(t)
        try:
            back = parser.parse(text)
        except Exception as e:  # noqa: BLE001
            fails.append({"clause": "text-is-accepted", "detail": f"`{text}` (tree {desc}) rejected: {type(e).__name__}"})
            continue
        if variables(back) != variables(t):
            fails.append({"clause": "same-variables", "detail": f"`{text}`: {sorted(variables(t))} -> {sorted(variables(back))}"})
            continue
        for env in ENVS:
            a, b = ev(t, env), ev(back, env)
            if a is None and b is None:
                continue
            if a is None or b is None:
                ref = reference_reading(text, env)
                tag = "parser-right-fold: " if ((ref is None) == (a is None) and (ref is None or isinstance(ref, tuple) or close(ref, a))) else ""
                fails.append({"clause": "same-value", "detail": f"{tag}`{text}` (tree {desc}): defined-ness differs at {env}"})
                break
            if isinstance(a, tuple) or isinstance(b, tuple):
                if not (isinstance(a, tuple) and isinstance(b, tuple) and holds(a) == holds(b) and close(a[1], b[1]) and close(a[2], b[2])):
                    fails.append({"clause": "same-value", "detail": f"`{text}` (tree {desc}): equation sides differ after re-parsing"})
                    break
            elif not close(a, b):
                ref = reference_reading(text, env)
                tag = "parser-right-fold: " if (ref is not None and not isinstance(ref, tuple) and close(ref, a)) else ""
                fails.append({"clause": "same-value", "detail": f"{tag}`{text}` (tree {desc}) evaluates to {float(a)} but its text re-parses to `{back}` = {float(b)} at {env}"})
                break
    return n, fails


def main():
    maxn = int(sys.argv[1])
    maxside = int(sys.argv[2])
    descs = []
    for n in range(1, maxn + 1):
        descs += list(gen_trees(n, LEAVES, None, UN))
    sides = []
    for n in range(1, maxside + 1):
        sides += list(gen_trees(n, LEAVES[:3] + LEAVES[6:], None, UN[:1]))
    descs += [("EqualExpression", l, r) for l in sides for r in sides]
    size = max(1, len(descs) // 128)
    chunks = [descs[i : i + size] for i in range(0, len(descs), size)]
    total = 0
    fails = []
    with mp.get_context("fork").Pool(16) as pool:
        for n, f in pool.imap_unordered(work, chunks):
            total += n
            fails += f
    seen = {}
    for f in fails:
        key = (f["clause"], f["detail"].split(" (tree")[0][:40])
        seen.setdefault(key, f)
        seen[key]["count"] = seen[key].get("count", 0) + 1
    print(json.dumps({"trees": total, "max_nodes": maxn, "max_equation_side_nodes": maxside, "leaves": [str(x) for x in LEAVES], "failures": list(seen.values())[:80], "n_failures": len(fails)}))
    sys.exit(1 if fails else 0)


if __name__ == "__main__":
    main()
