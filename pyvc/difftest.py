"""Engine differential test, interpreter side: the symbolic interpreter is run on CONCRETE trees, with no
callee contract installed (everything - clone, find_type, get_root, factor, ... - is executed from the
current source), and must reproduce what CPython did (tierb/diff_native.py): the applicability answer,
the exception class, and the tree after the rewrite including constant values and number types.
This validates the encoded Python / numpy semantics themselves; exit-relevant only as an engine error."""
from __future__ import annotations

import json
import multiprocessing as mp
import sys
from fractions import Fraction
from typing import Any, Dict, List

import z3

from . import externals
from .interp import Interp, PathState
from .rulecheck import RULE_CONFIGS
from .values import INF, NAN, IdStr, Num, Obj, OutOfSubset, PyRaise, tag_of, zbool, zreal

_I = None
_RULES: Dict[str, Any] = {}
ABSTRACT = [0]


def _init(repo):
    global _I
    I = Interp(repo)
    externals.install(I)
    for cfg in RULE_CONFIGS:
        I.load_module(cfg[1])
    I.max_unroll = 5000  # concrete runs: loops are simply executed
    _I = I


def build(I, d):
    if d[0] == "c":
        v = float(d[1]) if d[2] in ("float", "float64") else int(d[1])
        return I.instantiate(I.classes["ConstantExpression"], [v], {})
    if d[0] == "v":
        return I.instantiate(I.classes["VariableExpression"], [d[1]], {})
    if isinstance(d[2], bool):
        return I.instantiate(I.classes[d[0]], [build(I, d[1]), d[2]], {})
    return I.instantiate(I.classes[d[0]], [build(I, d[1]), build(I, d[2])], {})


def inorder(o, out=None):
    if out is None:
        out = []
    if not isinstance(o, Obj):
        return out
    inorder(o.cur.get("left"), out)
    out.append(o)
    inorder(o.cur.get("right"), out)
    return out


def number(v):
    """(Fraction | 'nan' | 'inf' | None, type name)"""
    if v is NAN:
        return "nan", "float"
    if v is INF:
        return "inf", "float"
    if isinstance(v, bool):
        return None, "bool"
    if isinstance(v, int):
        return Fraction(v), "int"
    if isinstance(v, float):
        if v != v:
            return "nan", "float"
        if v in (float("inf"), float("-inf")):
            return "inf", "float"
        return Fraction(v), "float"
    if isinstance(v, Fraction):
        return v, "int" if v.denominator == 1 else "float"
    if isinstance(v, Num):
        z = z3.simplify(zreal(v))
        t = tag_of(v)
        isf = z3.simplify(zbool(t[0]))
        isn = z3.simplify(zbool(t[1]))
        tn = ("float64" if z3.is_true(isn) else "float") if z3.is_true(isf) else ("int64" if z3.is_true(isn) else "int") if z3.is_false(isf) else "?"
        if z3.is_rational_value(z):
            return Fraction(z.numerator_as_long(), z.denominator_as_long()), tn
        if z3.is_algebraic_value(z):
            return Fraction(z.approx(20).as_fraction().numerator.as_long() if hasattr(z.approx(20).as_fraction().numerator, "as_long") else 0, 1), tn
        return None, tn
    return None, type(v).__name__


def desc_of(o, seen=None):
    if o is None:
        return None
    if seen is None:
        seen = ()
    if id(o) in seen:
        return ["cycle"]
    seen = seen + (id(o),)  # along the current path only: a node object that occurs twice is described twice, as CPython's walk does
    k = o.clsname
    if k == "ConstantExpression":
        return ["c"] + list(number(o.cur.get("value")))
    if k == "VariableExpression":
        v = o.cur.get("identifier")
        return ["v", v if isinstance(v, str) else repr(v)]
    l, r = o.cur.get("left"), o.cur.get("right")
    if "child_on_left" in o.cur:
        col = o.cur.get("child_on_left")
        return [k, desc_of(l if col else r, seen), bool(col)]
    return [k, desc_of(l, seen), desc_of(r, seen)]


def same_number(eng, nat):
    ev, et = eng
    nv, nt = nat
    fam = {"int": "int", "float": "float", "float64": "float", "int64": "int64", "bool": "bool"}
    if fam.get(et, et) != fam.get(nt, nt):
        return False
    if ev is None:
        # the engine's value is a term over the uninterpreted real power: only the number type is comparable
        ABSTRACT[0] += 1
        return True
    if nv in ("nan", "inf"):
        return ev == nv
    if isinstance(ev, str):
        return False
    try:
        want = Fraction(nv) if nt not in ("float", "float64") else Fraction(float(nv))
    except (ValueError, OverflowError):
        return False
    if ev == want:
        return True
    return et != "int" and abs(ev - want) <= abs(want) * Fraction(1, 10**9) + Fraction(1, 10**12)


def same_tree(e, n):
    if e is None or n is None:
        return e is None and n is None
    if e[0] != n[0]:
        return False
    if e[0] == "c":
        nat_v = n[1]
        if nat_v in ("nan", "inf", "-inf"):
            nat_v = "nan" if nat_v == "nan" else "inf"
        return same_number((e[1], e[2]), (nat_v, n[2]))
    if e[0] == "v":
        return e[1] == n[1]
    if isinstance(n[2], bool) or isinstance(e[2], bool):
        return e[2] == n[2] and same_tree(e[1], n[1])
    return same_tree(e[1], n[1]) and same_tree(e[2], n[2])


def run_case(rec) -> Dict[str, Any]:
    I = _I
    ps = PathState([])
    I.ps = ps
    I.call_depth = 0
    I.classes["BinaryTreeNode"].attrs["_idCounter"] = 0
    cfg = [c for c in RULE_CONFIGS if c[0] == rec["rule"]][0]
    try:
        rule = I.instantiate(I.modules[cfg[1]].env.vars[cfg[2]].info, [], dict(cfg[3]))
        root = build(I, rec["tree"])
        node = inorder(root)[rec["node"]]
    except (OutOfSubset, PyRaise, IndexError) as e:
        return {"skip": f"setup: {e!r}"}
    try:
        can = I.call_method(rule, "can_apply_to", [node], {})
        if z3.is_expr(can):
            can = I.truth(can, "can")
        got_can: Any = bool(can)
    except PyRaise as pr:
        got_can = "raise:" + pr.exc.clsname
    except OutOfSubset as e:
        return {"skip": f"can_apply_to: {e}"}
    if ps.trace and any(len(alts) > 0 for _, alts in ps.trace):
        return {"skip": "the concrete run forked (a symbolic value appeared)"}
    if got_can != rec["can"]:
        return {"mismatch": f"can_apply_to: engine {got_can!r}, CPython {rec['can']!r}"}
    if got_can is not True:
        return {"ok": 1}
    try:
        change = I.call_method(rule, "apply_to", [node], {})
        res = change.cur.get("result")
        top = res
        guard = 0
        while isinstance(top, Obj) and isinstance(top.cur.get("parent"), Obj) and guard < 200:
            top = top.cur["parent"]
            guard += 1
        got: Any = desc_of(top)
    except PyRaise as pr:
        got = "raise:" + pr.exc.clsname
    except OutOfSubset as e:
        return {"skip": f"apply_to: {e}"}
    if any(len(alts) > 0 for _, alts in ps.trace):
        return {"skip": "the concrete run forked (a symbolic value appeared)"}
    want = rec.get("result")
    if isinstance(want, str) or isinstance(got, str):
        if got != want:
            return {"mismatch": f"apply_to: engine {str(got)[:120]}, CPython {str(want)[:120]}"}
        return {"ok": 2}
    if not same_tree(got, want):
        return {"mismatch": f"apply_to result: engine {json.dumps(got, default=str)[:200]}, CPython {json.dumps(want)[:200]}"}
    return {"ok": 2}


def _work(chunk):
    out = []
    for rec in chunk:
        try:
            r = run_case(rec)
        except Exception as e:  # noqa: BLE001
            r = {"skip": f"engine exception {type(e).__name__}: {str(e)[:100]}"}
        r["case"] = {"rule": rec["rule"], "node": rec["node"], "tree": rec["tree"]}
        r["abstract"] = ABSTRACT[0]
        ABSTRACT[0] = 0
        out.append(r)
    return out


def run_all(repo: str, cases: List[Dict[str, Any]], nproc=16) -> Dict[str, Any]:
    size = max(20, len(cases) // (nproc * 8))
    chunks = [cases[i : i + size] for i in range(0, len(cases), size)]
    ok = applied = abstract = 0
    skips: Dict[str, int] = {}
    mism = []
    with mp.get_context("fork").Pool(nproc, initializer=_init, initargs=(repo,)) as pool:
        for res in pool.imap_unordered(_work, chunks):
            for r in res:
                abstract += 1 if r.get("abstract") else 0
                if "ok" in r:
                    ok += 1
                    applied += 1 if r["ok"] == 2 else 0
                elif "skip" in r:
                    key = r["skip"][:60]
                    skips[key] = skips.get(key, 0) + 1
                else:
                    mism.append({"what": r["mismatch"], **r["case"]})
    return {"cases": len(cases), "agree": ok, "agree_with_rewrite": applied, "of_which_constant_values_abstract_(uninterpreted_power)": abstract, "skipped": skips, "mismatches": mism[:40], "n_mismatches": len(mism)}


# ------------------------------------------------------------------ parser / tokenizer
def _init_parse(repo):
    global _I
    I = Interp(repo)
    externals.install(I)
    I.load_module("mathy_core.parser")

    def conc(fn):
        def f(I2, args, kw):
            (a,) = args
            if not isinstance(a, (str, int, float)):
                raise OutOfSubset(f"{fn.__name__} of a non-concrete value")
            try:
                return fn(a)
            except ValueError as e:
                I2.raise_("ValueError", str(e), site=fn.__name__)

        return f

    I.external["py.int"] = conc(int)
    I.external["py.float"] = conc(float)
    I.max_unroll = 5000  # concrete runs: loops are simply executed
    _I = I


def run_parse_case(rec) -> Dict[str, Any]:
    I = _I
    out = {}
    for what in ("parse", "tokens", "tokens_padding"):
        ps = PathState([])
        I.ps = ps
        I.call_depth = 0
        I.classes["BinaryTreeNode"].attrs["_idCounter"] = 0
        try:
            if what == "parse":
                p = I.instantiate(I.classes["ExpressionParser"], [], {})
                got: Any = desc_of(I.call_method(p, "parse", [rec["text"]], {}))
            else:
                t = I.instantiate(I.classes["Tokenizer"], [], {"exclude_padding": what == "tokens"})
                toks = I.call_method(t, "tokenize", [rec["text"]], {})
                got = [[x.cur.get("type"), x.cur.get("value")] for x in toks.items]
        except PyRaise as pr:
            got = "raise:" + pr.exc.clsname
        except OutOfSubset as e:
            out[what] = {"skip": str(e)[:60]}
            continue
        if any(len(alts) > 0 for _, alts in ps.trace):
            out[what] = {"skip": "the concrete run forked"}
            continue
        want = rec[what]
        if what == "parse" and not isinstance(want, str) and not isinstance(got, str):
            same = same_tree(got, want)
        else:
            same = got == want
        out[what] = {"ok": 1} if same else {"mismatch": f"{what}({rec['text']!r}): engine {json.dumps(got, default=str)[:160]}, CPython {json.dumps(want)[:160]}"}
    return out


def _work_parse(chunk):
    res = []
    for rec in chunk:
        try:
            res.append(run_parse_case(rec))
        except Exception as e:  # noqa: BLE001
            res.append({"parse": {"skip": f"engine exception {type(e).__name__}: {str(e)[:80]}"}})
    return res


def run_parse_all(repo: str, cases: List[Dict[str, Any]], nproc=16) -> Dict[str, Any]:
    size = max(20, len(cases) // (nproc * 8))
    chunks = [cases[i : i + size] for i in range(0, len(cases), size)]
    agree = {"parse": 0, "tokens": 0, "tokens_padding": 0}
    skips: Dict[str, int] = {}
    mism = []
    with mp.get_context("fork").Pool(nproc, initializer=_init_parse, initargs=(repo,)) as pool:
        for res in pool.imap_unordered(_work_parse, chunks):
            for r in res:
                for what, v in r.items():
                    if "ok" in v:
                        agree[what] += 1
                    elif "skip" in v:
                        skips[v["skip"]] = skips.get(v["skip"], 0) + 1
                    else:
                        mism.append(v["mismatch"])
    return {"strings": len(cases), "agree": agree, "skipped": skips, "mismatches": mism[:40], "n_mismatches": len(mism)}


if __name__ == "__main__":
    data = json.load(open(sys.argv[2]))
    print(json.dumps(run_all(sys.argv[1], data), indent=1, default=str)[:6000])


# ------------------------------------------------------------------ tree / expression / util functions
def _init_methods(repo):
    global _I
    I = Interp(repo)
    externals.install(I)
    I.load_module("mathy_core.util")
    I.load_module("mathy_core.expressions")
    I.max_unroll = 5000
    _I = I


def _pre(o, out=None):
    if out is None:
        out = []
    if not isinstance(o, Obj):
        return out
    out.append(o)
    _pre(o.cur.get("left"), out)
    _pre(o.cur.get("right"), out)
    return out


def _num(v):
    val, tn = number(v)
    if val in ("nan", "inf"):
        return [tn, val]
    return [tn, val]


def _full(o):
    if not isinstance(o, Obj):
        return None
    k = o.clsname
    pay = _num(o.cur.get("value")) if k == "ConstantExpression" else o.cur.get("identifier") if k == "VariableExpression" else None
    return [k, pay, _full(o.cur.get("left")), _full(o.cur.get("right"))]


def _same_num(e, n):
    """e = [type, Fraction|'nan'|'inf'|None], n = [type, text]"""
    if e is None or n is None:
        return e is None and n is None
    return same_number((e[1], e[0]), (n[1], n[0]))


def _same_full(e, n):
    if e is None or n is None:
        return e is None and n is None
    if e[0] != n[0]:
        return False
    if e[0] == "ConstantExpression":
        if not _same_num(e[1], n[1]):
            return False
    elif e[1] != n[1]:
        return False
    return _same_full(e[2], n[2]) and _same_full(e[3], n[3])


def _guard(I, f):
    ps = PathState([])
    I.ps = ps
    I.call_depth = 0
    try:
        r = f()
    except PyRaise as pr:
        r = "raise:" + pr.exc.clsname
    if any(len(alts) > 0 for _, alts in ps.trace):
        raise OutOfSubset("the concrete run forked")
    return r


def _truth(I, v):
    if z3.is_expr(v):
        return bool(I.truth(v, "probe"))
    return bool(v)


def run_methods_case(rec) -> Dict[str, Any]:
    I = _I
    d, want = rec["tree"], rec["probes"]
    res = {"agree": 0, "skip": {}, "mismatch": []}

    def check(name, got_fn, cmp=None):
        I.classes["BinaryTreeNode"].attrs["_idCounter"] = 0
        try:
            got = got_fn()
        except OutOfSubset as e:
            k = f"{name.split('[')[0]}: {str(e)[:50]}"
            res["skip"][k] = res["skip"].get(k, 0) + 1
            return
        except Exception as e:  # noqa: BLE001
            k = f"{name.split('[')[0]}: engine exception {type(e).__name__}: {str(e)[:50]}"
            res["skip"][k] = res["skip"].get(k, 0) + 1
            return
        w = want
        for part in name.replace("]", "").split("["):
            w = w[int(part)] if part.isdigit() else w[part] if isinstance(w, dict) else w
        same = (got == w) if (isinstance(got, str) or isinstance(w, str) or cmp is None) else cmp(got, w)
        if same:
            res["agree"] += 1
        else:
            res["mismatch"].append(f"{name} on {json.dumps(d)[:120]}: engine {json.dumps(got, default=str)[:140]}, CPython {json.dumps(w)[:140]}")

    envs = [{"x": 2, "y": -3}, {"x": 0.5, "y": 2.0}, {"x": 0, "y": 1}]
    from .values import DictObj

    for i, env in enumerate(envs):
        check(f"evaluate{i}", lambda env=env: _guard(I, lambda: _num(I.call_method(build(I, d), "evaluate", [DictObj(dict(env))], {}))), _same_num)
    check("clone", lambda: _guard(I, lambda: _full(I.call_method(build(I, d), "clone", [], {}))), _same_full)

    def with_root(fn):
        def g():
            def h():
                root = build(I, d)
                nodes = _pre(root)
                index = {id(n): j for j, n in enumerate(nodes)}
                return fn(root, nodes, index)

            return _guard(I, h)

        return g

    for order in ("preorder", "inorder", "postorder"):
        check(f"to_list_{order}", with_root(lambda root, nodes, index, order=order: [index[id(n)] for n in I.call_method(root, "to_list", [order], {}).items]))
    from .interp import ClassVal

    check("find_add", with_root(lambda root, nodes, index: [index[id(n)] for n in I.call_method(root, "find_type", [ClassVal(I.classes["AddExpression"])], {}).items]))
    check("find_const", with_root(lambda root, nodes, index: [index[id(n)] for n in I.call_method(root, "find_type", [ClassVal(I.classes["ConstantExpression"])], {}).items]))
    util = lambda name: I.get_func("mathy_core.util", name)  # noqa: E731

    def term(t):
        if t is None or t is False:
            return None
        if hasattr(t, "values") and not hasattr(t, "cur"):
            c, v, e = t.values[0], t.values[1], t.values[2]
        else:
            c, v, e = t.cur.get("coefficient"), t.cur.get("variable"), t.cur.get("exponent")
        return [None if c is None else _num(c), v, None if e is None else _num(e)]

    def same_term(e, n):
        if e is None or n is None:
            return e is None and n is None
        return _same_num(e[0], n[0]) and e[1] == n[1] and _same_num(e[2], n[2])

    count = len(want["nodes"])
    for i in range(count):
        w = want["nodes"][i]
        at = f"nodes[{i}]"
        check(f"{at}[root]", with_root(lambda root, nodes, index, i=i: index[id(I.call_method(nodes[i], "get_root", [], {}))]))
        check(f"{at}[sibling]", with_root(lambda root, nodes, index, i=i: (lambda s: None if s is None else index[id(s)])(I.call_method(nodes[i], "get_sibling", [], {}))))
        check(f"{at}[children]", with_root(lambda root, nodes, index, i=i: [index[id(c)] for c in I.call_method(nodes[i], "get_children", [], {}).items]))
        if w.get("root_side") is not None:
            check(f"{at}[root_side]", with_root(lambda root, nodes, index, i=i: I.call_method(nodes[i], "get_root_side", [], {})))
        check(f"{at}[term]", with_root(lambda root, nodes, index, i=i: term(I.call_function(util("get_term_ex"), [nodes[i]], {}, use_contract=False))), same_term)
        check(f"{at}[simple_term]", with_root(lambda root, nodes, index, i=i: _truth(I, I.call_function(util("is_simple_term"), [nodes[i]], {}, use_contract=False))))
        check(f"{at}[preferred]", with_root(lambda root, nodes, index, i=i: _truth(I, I.call_function(util("is_preferred_term_form"), [nodes[i]], {}, use_contract=False))))
        if "like" in w:
            check(f"{at}[like]", with_root(lambda root, nodes, index, i=i: _truth(I, I.call_function(util("has_like_terms"), [nodes[i]], {}, use_contract=False))))
        if "terms_are_like" in w:
            check(f"{at}[terms_are_like]", with_root(lambda root, nodes, index, i=i: _truth(I, I.call_function(util("terms_are_like"), [nodes[i].cur.get("left"), nodes[i].cur.get("right")], {}, use_contract=False))))

        def cfr(root, nodes, index, i=i):
            c = I.call_method(nodes[i], "clone_from_root", [], {})
            top = c
            while isinstance(top.cur.get("parent"), Obj):
                top = top.cur["parent"]
            idx2 = {id(x): j for j, x in enumerate(_pre(top))}
            return [idx2[id(c)], _full(top)]

        check(f"{at}[clone_from_root]", with_root(cfr), lambda e, n: e[0] == n[0] and _same_full(e[1], n[1]))

        def rot(root, nodes, index, i=i):
            I.call_method(nodes[i], "rotate", [], {})
            top = nodes[i]
            while isinstance(top.cur.get("parent"), Obj):
                top = top.cur["parent"]
            return _full(top)

        check(f"{at}[rotate]", with_root(rot), _same_full)
    return res


def _work_methods(chunk):
    out = []
    for rec in chunk:
        try:
            out.append(run_methods_case(rec))
        except Exception as e:  # noqa: BLE001
            out.append({"agree": 0, "skip": {f"engine exception {type(e).__name__}: {str(e)[:60]}": 1}, "mismatch": []})
    return out


def run_methods_all(repo: str, data: Dict[str, Any], nproc=16) -> Dict[str, Any]:
    cases = data["trees"]
    size = max(5, len(cases) // (nproc * 8))
    chunks = [cases[i : i + size] for i in range(0, len(cases), size)]
    agree = 0
    skips: Dict[str, int] = {}
    mism: List[str] = []
    with mp.get_context("fork").Pool(nproc, initializer=_init_methods, initargs=(repo,)) as pool:
        for res in pool.imap_unordered(_work_methods, chunks):
            for r in res:
                agree += r["agree"]
                for k, v in r["skip"].items():
                    skips[k] = skips.get(k, 0) + v
                mism += r["mismatch"]
    # util.factor on concrete numbers
    _init_methods(repo)
    I = _I
    fagree = 0
    for key, want in data.get("factor", {}).items():
        v = eval(key, {"__builtins__": {}})  # numeric literal written by the native side
        try:
            def run():
                t = I.call_function(I.get_func("mathy_core.util", "factor"), [v], {}, use_contract=False)
                return sorted([[x for x in _num(k)] + [x for x in _num(w)] for k, w in t.items.items()], key=lambda r: json.dumps(r, default=str))
            got = _guard(I, run)
        except OutOfSubset as e:
            skips[f"factor: {str(e)[:50]}"] = skips.get(f"factor: {str(e)[:50]}", 0) + 1
            continue
        if isinstance(got, str) or isinstance(want, str):
            ok = got == want
        else:
            wn = sorted(want, key=lambda r: json.dumps(r))
            ok = len(got) == len(wn) and all(any(_same_num(g[0:2], w[0:2]) and _same_num(g[2:4], w[2:4]) for w in wn) for g in got)
        if ok:
            fagree += 1
        else:
            mism.append(f"factor({key}): engine {json.dumps(got, default=str)[:160]}, CPython {json.dumps(want)[:160]}")
    return {"trees": len(cases), "agree": agree + fagree, "factor_tables_agree": fagree, "skipped": skips, "mismatches": mism[:40], "n_mismatches": len(mism)}
