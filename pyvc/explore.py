"""Path exploration by re-execution, and obligation discharge (z3 API, cvc5 / z3 CLI fall-back)."""
from __future__ import annotations

import os
import subprocess
import tempfile
import time
from typing import Any, Callable, List, Optional

import z3

from .interp import PathState
from .values import OutOfSubset, PathAbort


class PathOutcome:
    def __init__(self, ps: PathState, result=None, error=None):
        self.ps = ps
        self.result = result
        self.error = error  # OutOfSubset instance or None


def explore(run: Callable[[PathState], Any], max_paths=200000, check_timeout_ms=3000, on_path=None,
            initial=None, stop_when_frontier=None, budget=None):
    """Run `run(ps)` on every feasible path.  `run` returns an arbitrary result object.
    With stop_when_frontier=n the exploration stops as soon as n subtrees are pending and returns
    (outcomes, pending prefixes)."""
    work: List[List[int]] = [list(p) for p in (initial if initial is not None else [[]])]
    outcomes: List[PathOutcome] = []
    n = 0
    t_start = time.time()
    max_seconds = float(os.environ.get("PYVC_EXPLORE_SECONDS", "400"))
    while work:
        if stop_when_frontier is None and budget is None and time.time() - t_start > max_seconds:
            # an exploration that does not come to an end (a loop over the heap without an invariant forks at
            # every step) is a tool limit: undecided, never a hang
            raise OutOfSubset(f"exploration exceeded {int(max_seconds)} s after {n} paths (unbounded walk over the heap without an invariant?)")
        if stop_when_frontier is not None and len(work) >= stop_when_frontier:
            return outcomes, work
        if budget is not None and n >= budget:
            return outcomes, work
        prefix = work.pop(0) if stop_when_frontier is not None else work.pop()
        ps = PathState(prefix, check_timeout_ms)
        n += 1
        if n > max_paths:
            raise OutOfSubset(f"more than {max_paths} paths")
        try:
            res = run(ps)
            out = PathOutcome(ps, result=res)
        except PathAbort:
            out = None
        except OutOfSubset as e:
            out = PathOutcome(ps, error=e)
        for alt in ps.alternatives():
            work.append(alt)
        if out is not None:
            if on_path is not None:
                on_path(out)
            else:
                outcomes.append(out)
    if stop_when_frontier is not None or budget is not None:
        return outcomes, []
    return outcomes


class Verdict:
    def __init__(self, status, model=None, backend="z3", seconds=0.0, reason=""):
        self.status = status  # 'proved' | 'refuted' | 'unknown'
        self.model = model
        self.backend = backend
        self.seconds = seconds
        self.reason = reason


def prove(pc, axioms, goal, timeout_ms=10000, fallback=True) -> Verdict:
    """Is  /\\pc /\\ /\\axioms  =>  goal  valid?"""
    t0 = time.time()
    s = z3.Solver()
    s.set("timeout", timeout_ms)
    for c in pc:
        s.add(c)
    for a in axioms:
        s.add(a)
    s.add(z3.Not(goal))
    r = s.check()
    dt = time.time() - t0
    if r == z3.unsat:
        return Verdict("proved", backend="z3-api", seconds=dt)
    if r == z3.sat:
        return Verdict("refuted", model=s.model(), backend="z3-api", seconds=dt)
    reason = s.reason_unknown()
    if fallback:
        smt = s.to_smt2()
        for name, cmd in (
            ("cvc5", ["/usr/bin/cvc5", "--lang=smt2", f"--tlimit={timeout_ms}", "--nl-ext-tplanes"]),
            ("z3-4.8", ["/usr/bin/z3", f"-T:{max(1, timeout_ms // 1000)}", "-smt2"]),
        ):
            res = _run_cli(cmd, smt, timeout_ms)
            if res == "unsat":
                return Verdict("proved", backend=name, seconds=time.time() - t0)
            if res == "sat":
                return Verdict("refuted", model=None, backend=name, seconds=time.time() - t0)
    return Verdict("unknown", backend="z3-api", seconds=time.time() - t0, reason=reason)


def _run_cli(cmd, smt, timeout_ms) -> Optional[str]:
    if not os.path.exists(cmd[0]):
        return None
    fd, path = tempfile.mkstemp(suffix=".smt2")
    try:
        with os.fdopen(fd, "w") as f:
            f.write("(set-logic ALL)\n" if "cvc5" in cmd[0] else "")
            f.write(smt)
        try:
            p = subprocess.run(cmd + [path], capture_output=True, text=True, timeout=timeout_ms / 1000 + 5)
        except subprocess.TimeoutExpired:
            return None
        out = p.stdout.strip().splitlines()
        if out and out[0] in ("sat", "unsat"):
            return out[0]
        return None
    finally:
        os.unlink(path)


def prove_split(pc, axioms, goal, splits, timeout_ms=10000, max_cases=256) -> Verdict:
    """Case split over finite-domain variables (node kinds) before calling the solver: every case
    is a separate, much smaller query.  `splits` = [(z3 Int var, [codes])]."""
    import itertools

    splits = [(v, cs) for v, cs in splits if len(cs) > 1]
    n = 1
    for _, cs in splits:
        n *= len(cs)
    if not splits or n > max_cases:
        return prove(pc, axioms, goal, timeout_ms)
    total = 0.0
    backends = set()
    failed = []
    first = None
    for combo in itertools.product(*[cs for _, cs in splits]):
        eqs = [v == c for (v, _), c in zip(splits, combo)]
        v = prove(list(pc) + eqs, axioms, goal, timeout_ms)
        total += v.seconds
        backends.add(v.backend)
        if v.status != "proved":
            failed.append((combo, v.status))
            if first is None or (first.status == "unknown" and v.status == "refuted"):
                first = v
    if first is not None:
        first.seconds = total
        first.failed_cases = failed
        if any(st == "unknown" for _, st in failed) and first.status == "refuted":
            first.reason = "some cases undecided"
        return first
    return Verdict("proved", backend="+".join(sorted(backends)) or "simplify", seconds=total)
