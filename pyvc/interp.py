"""pyvc symbolic interpreter for the Python subset used by mathy_core.

The program text is the *current* source of /repo (parsed with `ast` on every run); nothing
is cached between runs.  Paths are explored by re-execution with a recorded decision prefix.
"""
from __future__ import annotations

import ast
import os
import sys
from fractions import Fraction
from typing import Any, Callable, Dict, List, Optional, Tuple

import z3

from .values import *  # noqa: F401,F403
from .values import (
    NAN,
    TAG_NPFLOAT,
    TAG_PYFLOAT,
    TAG_PYINT,
    BoundMethod,
    BreakEx,
    Builtin,
    ClassInfo,
    ContinueEx,
    DictObj,
    ExtAttr,
    ExtModule,
    FuncVal,
    IdStr,
    ListObj,
    Num,
    Obj,
    OpaqueStr,
    OutOfSubset,
    PathAbort,
    Poison,
    PyRaise,
    ReturnEx,
    SetObj,
    SuperProxy,
    SymDict,
    SymList,
    TupleObj,
    b_and,
    b_not,
    b_or,
    tag_of,
    zarith,
    zbool,
    zreal,
)

sys.setrecursionlimit(20000)

REPO = os.environ.get("PYVC_REPO", "/repo")
PKG = "mathy_core"

EXTERNAL_MODULES = {
    "numpy",
    "math",
    "random",
    "json",
    "colr",
    "wasabi",
    "typing",
    "io",
    "pathlib",
    "dataclasses",
    "sys",
    "traceback",
    "typing_extensions",
}


class Env:
    __slots__ = ("vars", "parent", "nonlocals", "globals_", "module")

    def __init__(self, parent=None, module=None):
        self.vars: Dict[str, Any] = {}
        self.parent = parent
        self.nonlocals = set()
        self.globals_ = set()
        self.module = module if module is not None else (parent.module if parent else None)

    def lookup(self, name):
        e = self
        while e is not None:
            if name in e.vars:
                return e.vars[name]
            e = e.parent
        raise KeyError(name)

    def assign(self, name, value):
        if name in self.nonlocals:
            e = self.parent
            while e is not None:
                if name in e.vars:
                    e.vars[name] = value
                    return
                e = e.parent
            raise OutOfSubset(f"nonlocal {name} not found")
        if name in self.globals_:
            self.module.env.vars[name] = value
            return
        self.vars[name] = value


class ModuleInfo:
    def __init__(self, name, path):
        self.name = name
        self.path = path
        with open(path) as f:
            self.src = f.read()
        self.tree = ast.parse(self.src, filename=path)
        self.env = Env()
        self.env.module = self
        self.loaded = False


# --------------------------------------------------------------------------- path state
class PathState:
    """Decisions, path condition and solver of one execution path."""

    def __init__(self, prefix=(), check_timeout_ms=3000):
        self.prefix = list(prefix)
        self.trace: List[Tuple[int, Tuple[int, ...]]] = []
        self.solver = z3.Solver()
        self.solver.set("timeout", check_timeout_ms)
        self.pc: List[Any] = []
        self.next_oid = 0
        self.next_sym = 0
        self.next_fresh_id = 0
        self.writes: List[Tuple[Obj, str, Any, Any]] = []
        self.events: List[Any] = []
        self.solver_checks = 0
        self.solver_time = 0.0
        self.labels: List[str] = []
        self.memo: Dict[Any, Any] = {}  # results of pure contracts (same arguments -> same result)

    # --- symbols
    def fresh(self, base, sort="Real"):
        self.next_sym += 1
        name = f"{base}!{self.next_sym}"
        if sort == "Real":
            return z3.Real(name)
        if sort == "Int":
            return z3.Int(name)
        if sort == "Bool":
            return z3.Bool(name)
        raise ValueError(sort)

    def fresh_id(self):
        # a string the engine does not model: an UNCONSTRAINED symbol.  (It used to be a distinct constant,
        # which silently decided `key in seen` for two equal formatted strings - found by the differential test.)
        self.next_fresh_id += 1
        return IdStr(z3.Int(f"str!{self.next_fresh_id}"))

    # --- path condition
    def assume(self, c):
        if c is True:
            return
        if c is False:
            raise PathAbort()
        c = z3.simplify(c)
        if z3.is_true(c):
            return
        if z3.is_false(c):
            raise PathAbort()
        self.pc.append(c)
        self.solver.add(c)

    def _check(self, extra) -> bool:
        import time

        t = time.time()
        self.solver_checks += 1
        r = self.solver.check(extra)
        self.solver_time += time.time() - t
        return r != z3.unsat  # unknown counts as feasible

    def decide(self, cond, label="") -> bool:
        if isinstance(cond, bool):
            return cond
        cond = z3.simplify(cond)
        if z3.is_true(cond):
            return True
        if z3.is_false(cond):
            return False
        i = len(self.trace)
        if i < len(self.prefix):
            choice = self.prefix[i]
            self.trace.append((choice, ()))
        else:
            can_t = self._check(cond)
            can_f = self._check(z3.Not(cond))
            if can_t and can_f:
                choice, alts = 0, (1,)
            elif can_t:
                choice, alts = 0, ()
            elif can_f:
                choice, alts = 1, ()
            else:
                raise PathAbort()
            self.trace.append((choice, alts))
        if label:
            self.labels.append(f"{label}={'T' if choice == 0 else 'F'}")
        if choice == 0:
            self.pc.append(cond)
            self.solver.add(cond)
            return True
        nc = z3.Not(cond)
        self.pc.append(nc)
        self.solver.add(nc)
        return False

    def choose(self, n, label="") -> int:
        """Non-deterministic choice among n heap-shape alternatives (all explored)."""
        if n <= 0:
            raise PathAbort()
        if n == 1:
            return 0
        i = len(self.trace)
        if i < len(self.prefix):
            choice = self.prefix[i]
            self.trace.append((choice, ()))
        else:
            choice = 0
            self.trace.append((0, tuple(range(1, n))))
        if label:
            self.labels.append(f"{label}={choice}")
        return choice

    def alternatives(self):
        """Prefixes of the unexplored siblings of this path."""
        out = []
        base = len(self.prefix)
        choices = [c for c, _ in self.trace]
        for i in range(base, len(self.trace)):
            _, alts = self.trace[i]
            for a in alts:
                out.append(choices[:i] + [a])
        return out


# --------------------------------------------------------------------------- interpreter
class Interp:
    def __init__(self, repo: str = REPO):
        self.repo = repo
        self.modules: Dict[str, ModuleInfo] = {}
        self.classes: Dict[str, ClassInfo] = {}
        self.ps: Optional[PathState] = None
        self.heap = None  # heap policy (set by harness)
        self.contracts: Dict[str, Callable] = {}  # qualname -> fn(interp, args, kwargs, funcval)
        self.method_contracts: Dict[str, Callable] = {}  # method name on expression nodes
        self.external: Dict[str, Callable] = {}  # "np.power" -> fn(interp, args, kwargs)
        self.str_mode = "opaque"
        self.call_depth = 0
        self.max_call_depth = 200
        self._exc_classes()
        self.builtins = self._make_builtins()
        self.called_quals = set()

    # ---------------------------------------------------------------- loading
    def _exc_classes(self):
        base = ClassInfo("BaseException", None, [])
        base.is_exception = True
        self.classes["BaseException"] = base
        exc = ClassInfo("Exception", None, [base])
        exc.is_exception = True
        self.classes["Exception"] = exc
        for name, parent in [
            ("ValueError", "Exception"),
            ("TypeError", "Exception"),
            ("AttributeError", "Exception"),
            ("LookupError", "Exception"),
            ("IndexError", "LookupError"),
            ("KeyError", "LookupError"),
            ("AssertionError", "Exception"),
            ("RuntimeError", "Exception"),
            ("NotImplementedError", "RuntimeError"),
            ("RecursionError", "RuntimeError"),
            ("OSError", "Exception"),
            ("ZeroDivisionError", "Exception"),
            ("StopIteration", "Exception"),
        ]:
            c = ClassInfo(name, None, [self.classes[parent]])
            c.is_exception = True
            self.classes[name] = c
        self.classes["EnvironmentError"] = self.classes["OSError"]
        obj = ClassInfo("object", None, [])
        self.classes["object"] = obj

    def module_path(self, name):
        rel = name.split(".")
        p = os.path.join(self.repo, *rel)
        if os.path.isdir(p):
            return os.path.join(p, "__init__.py")
        return p + ".py"

    def load_module(self, name) -> ModuleInfo:
        if name in self.modules:
            return self.modules[name]
        m = ModuleInfo(name, self.module_path(name))
        self.modules[name] = m
        if self.ps is None:
            self.ps = PathState()  # module-level objects (token sets...) live outside any path
        for st in m.tree.body:
            try:
                self.exec_stmt(st, m.env)
            except (OutOfSubset, PyRaise, KeyError, AttributeError, TypeError) as e:
                for t in _assigned_names(st):
                    m.env.vars[t] = Poison(f"{name}:{getattr(st, 'lineno', '?')}: {e!r}")
        m.loaded = True
        return m

    def resolve_import(self, cur: ModuleInfo, module: Optional[str], level: int):
        if level == 0:
            root = (module or "").split(".")[0]
            if root == PKG:
                return module
            return None  # external
        parts = cur.name.split(".")
        is_pkg = cur.path.endswith("__init__.py")
        base = parts if is_pkg else parts[:-1]
        if level > 1:
            base = base[: len(base) - (level - 1)]
        return ".".join(base + ([module] if module else []))

    def get_func(self, modname, qual) -> FuncVal:
        m = self.load_module(modname)
        if "." in qual:
            c, f = qual.split(".")
            ci = m.env.vars[c].info
            k = ci.lookup(f)
            return k[1]
        return m.env.vars[qual]

    # ---------------------------------------------------------------- helpers
    def new_obj(self, kinds, lazy=False, label="") -> Obj:
        o = Obj(self.ps.next_oid, kinds, lazy, label)
        self.ps.next_oid += 1
        return o

    def raise_(self, clsname, msg="", implicit=False, site=""):
        e = self.new_obj([clsname], label="exc")
        e.cur["args"] = (msg,)
        raise PyRaise(e, implicit=implicit, site=site)

    def class_of(self, name) -> ClassInfo:
        return self.classes[name]

    def kinds_subclassing(self, kinds, ci: ClassInfo):
        return frozenset(k for k in kinds if self.classes[k].is_subclass(ci))

    # ---------------------------------------------------------------- truthiness / comparisons
    def truth(self, v, label="") -> bool:
        if v is None:
            return False
        if isinstance(v, bool):
            return v
        if z3.is_expr(v) and z3.is_bool(v):
            return self.ps.decide(v, label)
        if v is NAN or v is INF:
            return True
        if isinstance(v, (int, float, Fraction)):
            return v != 0
        if isinstance(v, Num):
            return self.ps.decide(v.v != 0, label)
        if isinstance(v, str):
            return len(v) > 0
        if isinstance(v, (IdStr, OpaqueStr)):
            return True
        if isinstance(v, (tuple,)):
            return len(v) > 0
        if isinstance(v, TupleObj):
            return len(v.values) > 0
        if isinstance(v, ListObj):
            return len(v.items) > 0
        if isinstance(v, DictObj):
            return len(v.items) > 0
        if isinstance(v, SetObj):
            return len(v.items) > 0
        if isinstance(v, SymList):
            return self.ps.decide(v.length > 0, label)
        if isinstance(v, Obj):
            return self.obj_truth(v)
        if isinstance(v, (FuncVal, BoundMethod, Builtin, ClassVal, ExtAttr)):
            return True
        if hasattr(v, "truth"):
            return v.truth(self)
        raise OutOfSubset(f"truthiness of {type(v).__name__}")

    def obj_truth(self, o: Obj) -> bool:
        for k in o.kinds:
            ci = self.classes[k]
            if ci.lookup("__bool__") or ci.lookup("__len__"):
                raise OutOfSubset(f"{k} defines __bool__/__len__")
        return True

    def eq(self, a, b):
        """Python == ; returns python bool or z3 Bool."""
        if a is None or b is None:
            return a is None and b is None
        if isinstance(a, ClassVal) or isinstance(b, ClassVal):
            return isinstance(a, ClassVal) and isinstance(b, ClassVal) and a.info is b.info
        if isinstance(a, Obj) or isinstance(b, Obj):
            for o, other in ((a, b), (b, a)):
                if not isinstance(o, Obj):
                    continue
                withs = [k for k in sorted(o.kinds) if self.classes[k].lookup("__eq__")]
                if not withs:
                    continue
                # a class of the code under check defines equality: run it (for the kinds that have it)
                if len(withs) < len(o.kinds):
                    if self.ps.choose(2, "defines-__eq__") == 0:
                        self.refine_kinds(o, [k for k in o.kinds if k not in withs])
                        continue
                    self.refine_kinds(o, withs)
                r = self.call_method(o, "__eq__", [other], {})
                if r is NotImplemented:
                    continue
                return r
            if isinstance(a, Obj) and isinstance(b, Obj):
                return a is b
            return False
        if a is NAN or b is NAN:
            return False
        na, nb = _isnum(a), _isnum(b)
        if na and nb:
            if isinstance(a, Num) or isinstance(b, Num):
                return zarith_pair_eq(a, b)
            return a == b
        if isinstance(a, IdStr) or isinstance(b, IdStr):
            if isinstance(a, IdStr) and isinstance(b, IdStr):
                r = z3.simplify(a.code == b.code)
                return True if z3.is_true(r) else False if z3.is_false(r) else r
            if isinstance(a, str) or isinstance(b, str):
                s = a if isinstance(a, str) else b
                i = a if isinstance(a, IdStr) else b
                return self.idstr_eq_literal(i, s)
            return False
        if z3.is_expr(a) or z3.is_expr(b):
            if (z3.is_expr(a) and z3.is_bool(a)) or (z3.is_expr(b) and z3.is_bool(b)):
                if isinstance(a, (bool,)) or z3.is_expr(a) and z3.is_bool(a):
                    if isinstance(b, (bool,)) or z3.is_expr(b) and z3.is_bool(b):
                        return zbool(a) == zbool(b)
                return False
        if hasattr(a, "eq"):
            return a.eq(self, b)
        if hasattr(b, "eq"):
            return b.eq(self, a)
        if isinstance(a, (ListObj,)) and isinstance(b, ListObj):
            if len(a.items) != len(b.items):
                return False
            r = True
            for x, y in zip(a.items, b.items):
                r = b_and(r, self.eq(x, y))
            return r
        if isinstance(a, tuple) and isinstance(b, tuple):
            if len(a) != len(b):
                return False
            r = True
            for x, y in zip(a, b):
                r = b_and(r, self.eq(x, y))
            return r
        if type(a) in (str, bool, int, float) and type(b) in (str, bool, int, float):
            return a == b
        if isinstance(a, (ClassVal,)) and isinstance(b, ClassVal):
            return a.info is b.info
        if type(a) is not type(b):
            return False
        return a is b

    def idstr_eq_literal(self, i: IdStr, s: str):
        """Identifier strings are compared with literals only through interned codes."""
        code = self.intern_literal(s)
        r = z3.simplify(i.code == code)
        return True if z3.is_true(r) else False if z3.is_false(r) else r

    def intern_literal(self, s: str):
        # literal strings get large distinct positive codes; input identifiers are constrained
        # by the harness to a disjoint range unless the harness says otherwise
        h = 10_000_000 + (abs(hash_str(s)) % 1_000_000_000)
        return z3.IntVal(h)

    def compare(self, op, a, b):
        if isinstance(op, ast.Eq):
            return self.eq(a, b)
        if isinstance(op, ast.NotEq):
            return b_not(self.eq(a, b))
        if isinstance(op, ast.Is):
            return self.is_(a, b)
        if isinstance(op, ast.IsNot):
            return b_not(self.is_(a, b))
        if isinstance(op, (ast.In, ast.NotIn)):
            r = self.contains(b, a)
            return r if isinstance(op, ast.In) else b_not(r)
        # ordering
        if a is NAN or b is NAN:
            return False
        if _isnum(a) and _isnum(b):
            if isinstance(a, Num) or isinstance(b, Num):
                x, y = _coerce_pair(a, b)
                if isinstance(op, ast.Lt):
                    return x < y
                if isinstance(op, ast.LtE):
                    return x <= y
                if isinstance(op, ast.Gt):
                    return x > y
                if isinstance(op, ast.GtE):
                    return x >= y
            if isinstance(op, ast.Lt):
                return a < b
            if isinstance(op, ast.LtE):
                return a <= b
            if isinstance(op, ast.Gt):
                return a > b
            if isinstance(op, ast.GtE):
                return a >= b
        if isinstance(a, str) and isinstance(b, str):
            return {ast.Lt: a < b, ast.LtE: a <= b, ast.Gt: a > b, ast.GtE: a >= b}[type(op)]
        if hasattr(a, "compare"):
            return a.compare(self, op, b, False)
        if hasattr(b, "compare"):
            return b.compare(self, op, a, True)
        if a is None or b is None:
            self.raise_("TypeError", "ordering with None", implicit=True)
        raise OutOfSubset(f"compare {type(op).__name__} on {type(a).__name__},{type(b).__name__}")

    def is_(self, a, b):
        if a is None or b is None:
            return a is None and b is None
        if isinstance(a, bool) or isinstance(b, bool):
            if isinstance(a, bool) and isinstance(b, bool):
                return a == b
            # `x is True` with symbolic bool x
            if z3.is_expr(a) and z3.is_bool(a) and isinstance(b, bool):
                return a if b else z3.Not(a)
            if z3.is_expr(b) and z3.is_bool(b) and isinstance(a, bool):
                return b if a else z3.Not(b)
            return False
        if isinstance(a, ClassVal) or isinstance(b, ClassVal):
            # class objects are compared by the class they stand for (type(x) builds a new wrapper each time)
            return isinstance(a, ClassVal) and isinstance(b, ClassVal) and a.info is b.info
        if isinstance(a, Obj) or isinstance(b, Obj):
            return a is b
        if isinstance(a, str) and isinstance(b, str):
            return a == b
        if isinstance(a, IdStr) and isinstance(b, IdStr):
            return self.eq(a, b)
        return a is b

    def contains(self, container, item):
        if hasattr(item, "contained_in") and isinstance(container, (ListObj, DictObj)):
            return item.contained_in(self, container)
        if isinstance(container, (ListObj, SetObj)):
            r = False
            for x in container.items:
                r = b_or(r, self.eq(x, item))
            return r
        if isinstance(container, tuple):
            r = False
            for x in container:
                r = b_or(r, self.eq(x, item))
            return r
        if isinstance(container, DictObj):
            r = False
            for x in container.items:
                r = b_or(r, self.eq(x, item))
            return r
        if isinstance(container, SymDict):
            return container.mem(self, item)
        if isinstance(container, str):
            if isinstance(item, str):
                return item in container
        if hasattr(container, "contains"):
            return container.contains(self, item)
        if hasattr(item, "contained_in"):
            return item.contained_in(self, container)
        raise OutOfSubset(f"`in` on {type(container).__name__}")

    # ---------------------------------------------------------------- arithmetic
    def binop(self, op, a, b):
        if isinstance(op, ast.Add) and (_isstr(a) or _isstr(b)):
            return self.str_concat(a, b)
        if isinstance(op, ast.Add) and isinstance(a, ListObj) and isinstance(b, ListObj):
            return ListObj(a.items + b.items)
        if isinstance(op, ast.Mult) and isinstance(a, ListObj) and isinstance(b, int):
            return ListObj(a.items * b)
        if isinstance(op, ast.Mod) and isinstance(a, str):
            return self.fresh_str([a, b])
        if isinstance(op, (ast.BitOr, ast.BitAnd, ast.LShift, ast.RShift, ast.BitXor)):
            if isinstance(a, int) and isinstance(b, int):
                return {
                    ast.BitOr: lambda: a | b,
                    ast.BitAnd: lambda: a & b,
                    ast.LShift: lambda: a << b,
                    ast.RShift: lambda: a >> b,
                    ast.BitXor: lambda: a ^ b,
                }[type(op)]()
            if hasattr(a, "bitop"):
                return a.bitop(self, op, b, False)
            if hasattr(b, "bitop"):
                return b.bitop(self, op, a, True)
            raise OutOfSubset("bit operation on symbolic value")
        if hasattr(a, "binop"):
            return a.binop(self, op, b, False)
        if hasattr(b, "binop"):
            return b.binop(self, op, a, True)
        if a is None or b is None:
            self.raise_("TypeError", "arithmetic with None", implicit=True)
        if not (_isnum(a) and _isnum(b)):
            raise OutOfSubset(f"binop {type(op).__name__} on {type(a).__name__},{type(b).__name__}")
        if a is INF or b is INF:
            raise OutOfSubset("arithmetic on an infinity")
        if a is NAN or b is NAN:
            return NAN
        if not isinstance(a, Num) and not isinstance(b, Num):
            return self.concrete_binop(op, a, b)
        ta, tb = tag_of(a), tag_of(b)
        isnp = b_or(ta[1], tb[1])
        if isinstance(op, ast.Div):
            bz = zreal(b)
            if self.ps.decide(bz == 0, "div0"):
                # python raises; numpy scalars give inf/nan with a warning
                if self.ps.decide(zbool(isnp), "npdiv"):
                    # numpy: 0 / 0 = nan, anything else / 0 = +-inf (RuntimeWarning only)
                    if self.ps.decide(zreal(a) == 0, "np0div0"):
                        return NAN
                    return INF
                self.raise_("ZeroDivisionError", "division by zero", implicit=True)
            return Num(zreal(a) / bz, (True, isnp))
        isfloat = b_or(ta[0], tb[0])
        if isinstance(op, ast.Add):
            x, y = _coerce_pair(a, b)
            return Num(x + y, (isfloat, isnp))
        if isinstance(op, ast.Sub):
            x, y = _coerce_pair(a, b)
            return Num(x - y, (isfloat, isnp))
        if isinstance(op, ast.Mult):
            x, y = _coerce_pair(a, b)
            return Num(x * y, (isfloat, isnp))
        if isinstance(op, ast.Mod):
            x, y = _coerce_pair(a, b)
            if z3.is_int(x) and z3.is_int(y):
                if self.ps.decide(y == 0, "mod0"):
                    self.raise_("ZeroDivisionError", "modulo by zero", implicit=True)
                # python % has the sign of the divisor; z3 mod is non-negative: equal for y > 0
                if self.ps.decide(y > 0, "modpos"):
                    return Num(x % y, (isfloat, isnp))
                return Num(-((-x) % (-y)), (isfloat, isnp))
            # real modulo: a - b*floor(a/b)
            xr, yr = zreal(a), zreal(b)
            if self.ps.decide(yr == 0, "mod0"):
                if self.truth(zbool(b_or(isfloat, isnp))):
                    if self.truth(zbool(isnp)):
                        return NAN
                self.raise_("ZeroDivisionError", "modulo by zero", implicit=True)
            q = z3.ToReal(z3.ToInt(xr / yr))
            return Num(xr - yr * q, (isfloat, isnp))
        if isinstance(op, ast.FloorDiv):
            x, y = _coerce_pair(a, b)
            if z3.is_int(x) and z3.is_int(y):
                if self.ps.decide(y == 0, "div0"):
                    self.raise_("ZeroDivisionError", "division by zero", implicit=True)
                if self.ps.decide(y > 0, "fdivpos"):
                    return Num(x / y, (isfloat, isnp))
                return Num(-((-x) / (-y)) if False else z3.ToInt(zreal(a) / zreal(b)), (isfloat, isnp))
            return Num(z3.ToReal(z3.ToInt(zreal(a) / zreal(b))), (isfloat, isnp))
        if isinstance(op, ast.Pow):
            return self.call_external("py.pow", [a, b], {})
        raise OutOfSubset(f"binop {type(op).__name__}")

    def concrete_binop(self, op, a, b):
        try:
            if isinstance(op, ast.Add):
                return a + b
            if isinstance(op, ast.Sub):
                return a - b
            if isinstance(op, ast.Mult):
                return a * b
            if isinstance(op, ast.Div):
                if isinstance(a, int) and isinstance(b, int) and b != 0 and a % b != 0:
                    return Fraction(a, b)
                return a / b
            if isinstance(op, ast.Mod):
                return a % b
            if isinstance(op, ast.FloorDiv):
                return a // b
            if isinstance(op, ast.Pow):
                return a**b
        except ZeroDivisionError:
            self.raise_("ZeroDivisionError", "division by zero", implicit=True)
        raise OutOfSubset(f"binop {type(op).__name__}")

    def unaryop(self, op, a):
        if isinstance(op, ast.Not):
            if z3.is_expr(a) and z3.is_bool(a):
                return z3.Not(a)
            return not self.truth(a)
        if isinstance(op, ast.USub):
            if a is NAN:
                return NAN
            if a is INF:
                return INF  # an infinity of either sign
            if isinstance(a, Num):
                return Num(-a.v, a.tag, getattr(a, "rounded", False))
            if isinstance(a, (int, float, Fraction)) and not isinstance(a, bool):
                return -a
            if hasattr(a, "neg"):
                return a.neg(self)
            if a is None:
                self.raise_("TypeError", "bad operand type for unary -", implicit=True)
        if isinstance(op, ast.UAdd):
            return a
        raise OutOfSubset(f"unary {type(op).__name__} on {type(a).__name__}")

    # ---------------------------------------------------------------- strings
    def fresh_str(self, parts):
        """A string the engine does not model (formatting, concatenation with symbolic pieces): an
        unconstrained symbol, except that a concatenation with a piece known to be non-empty is not ""."""
        r = self.ps.fresh_id()
        try:
            def known_nonempty(p):
                if isinstance(p, str):
                    return p != ""
                if isinstance(p, IdStr):
                    # identifiers / node ids are non-empty; an earlier unmodelled string may be empty
                    return not (z3.is_const(p.code) and p.code.decl().name().startswith("str!"))
                return bool(getattr(p, "nonempty", False))

            nonempty = any(known_nonempty(p) for p in (parts or []))
        except TypeError:
            nonempty = False
        if nonempty:
            self.ps.assume(r.code != self.intern_literal(""))
        return r

    def str_concat(self, a, b):
        if isinstance(a, str) and isinstance(b, str):
            return a + b
        if isinstance(a, str) and a == "" and isinstance(b, (IdStr, OpaqueStr)):
            return b
        if isinstance(b, str) and b == "" and isinstance(a, (IdStr, OpaqueStr)):
            return a
        if hasattr(a, "concat"):
            return a.concat(self, b, False)
        if hasattr(b, "concat"):
            return b.concat(self, a, True)
        return self.fresh_str([a, b])

    def to_str(self, v):
        if isinstance(v, str):
            return v
        if isinstance(v, (IdStr, OpaqueStr)):
            return v
        if v is None or isinstance(v, (bool, int)):
            return str(v)
        if isinstance(v, float):
            return str(v)
        if hasattr(v, "to_str"):
            return v.to_str(self)
        if isinstance(v, Obj) and self.str_mode != "opaque":
            k = None
            for kind in v.kinds:
                k = self.classes[kind].lookup("__str__")
                break
            if k:
                return self.call_method(v, "__str__", [], {})
        return self.fresh_str([v])

    def format_parts(self, parts):
        """parts: list of python values (literal str pieces and evaluated holes)."""
        if all(isinstance(p, str) for p in parts):
            return "".join(parts)
        if self.str_mode != "opaque":
            out = None
            for p in parts:
                s = self.to_str(p)
                out = s if out is None else self.str_concat(out, s)
            return out if out is not None else ""
        return self.fresh_str(parts)

    # ---------------------------------------------------------------- attribute access
    def getattr(self, o, name):
        if isinstance(o, Obj):
            return self.obj_getattr(o, name)
        if o is None:
            self.raise_("AttributeError", f"None.{name}", implicit=True, site=name)
        if isinstance(o, ClassVal):
            return self.class_getattr(o.info, name)
        if isinstance(o, TupleObj):
            if name in o.cls.ann:
                return o.values[o.cls.ann.index(name)]
            k = o.cls.lookup(name)
            if k and k[0] == "method":
                return BoundMethod(o, k[1])
            raise OutOfSubset(f"tuple attr {name}")
        if isinstance(o, ModuleVal):
            return o.mod.env.vars[name]
        if isinstance(o, ExtModule):
            return ExtAttr(f"{o.name}.{name}")
        if isinstance(o, ExtAttr):
            return ExtAttr(f"{o.path}.{name}")
        if isinstance(o, SuperProxy):
            ci_list = None
            # resolve along the MRO of the object's (single) class after `after`
            kinds = o.self_obj.kinds if isinstance(o.self_obj, Obj) else None
            found = None
            for k in sorted(kinds):
                mro = self.classes[k].mro()
                idx = mro.index(o.after)
                res = None
                for c in mro[idx + 1 :]:
                    if name in c.methods:
                        res = c.methods[name]
                        break
                if res is None:
                    raise OutOfSubset(f"super().{name} not found for {k}")
                if found is not None and found is not res:
                    raise OutOfSubset(f"super().{name} ambiguous over kinds")
                found = res
            return BoundMethod(o.self_obj, found)
        if isinstance(o, (ListObj, DictObj, SetObj, str, IdStr, SymList, SymDict)) or hasattr(o, "method"):
            return BoundBuiltin(o, name)
        if hasattr(o, "getitem") and hasattr(o, "length"):
            raise OutOfSubset(f"str.{name} on a symbolic string")
        if isinstance(o, FuncVal) and name == "__doc__":
            return None
        if isinstance(o, Poison):
            raise OutOfSubset(f"use of unsupported module-level value: {o.why}")
        if isinstance(o, (int, float)) or isinstance(o, Num):
            raise OutOfSubset(f"attribute {name} on number")
        raise OutOfSubset(f"getattr {type(o).__name__}.{name}")

    def class_getattr(self, ci: ClassInfo, name):
        if name == "__name__":
            return ci.name
        k = ci.lookup(name)
        if k is None:
            raise OutOfSubset(f"class attr {ci.name}.{name}")
        kind, val, _ = k
        if kind == "prop":
            return val  # property object; only used for __doc__ assignment
        return val

    def obj_getattr(self, o: Obj, name):
        if name in o.cur:
            return o.cur[name]
        if name == "__dict__":
            return ObjDict(o)
        if name == "__class__":
            self.split_kinds_each(o)
            return ClassVal(self.classes[next(iter(o.kinds))])
        # class-level lookup (may depend on the kind)
        res = self.resolve_member(o, name)
        if res is not None:
            kind, val, owner = res
            if kind == "method":
                return BoundMethod(o, val)
            if kind == "prop":
                return self.call_function(val, [o], {})
            return val
        if o.lazy and self.heap is not None:
            return self.heap.read_field(self, o, name)
        self.raise_("AttributeError", f"{o.clsname}.{name}", implicit=True, site=name)

    def resolve_member(self, o: Obj, name):
        """Look `name` up in the class(es) of o; splits the kind set when the definition differs."""
        groups: Dict[int, Tuple[Any, List[str]]] = {}
        for k in sorted(o.kinds):
            r = self.classes[k].lookup(name)
            key = id(r[1]) if r is not None else 0
            if r is not None and r[0] == "method" and r[1].qual in self.contracts:
                c = self.contracts[r[1].qual]
                key = ("contract", id(getattr(c, "__func__", c)), id(getattr(c, "__self__", None)))
            groups.setdefault(key, (r, []))[1].append(k)
        if len(groups) == 1:
            return next(iter(groups.values()))[0]
        keys = sorted(groups, key=lambda kk: groups[kk][1])  # deterministic order
        c = self.ps.choose(len(keys), f"dispatch.{name}")
        r, kinds = groups[keys[c]]
        self.refine_kinds(o, kinds)
        return r

    def refine_kinds(self, o: Obj, kinds):
        kinds = frozenset(kinds) & o.kinds
        if not kinds:
            raise PathAbort()
        if kinds != o.kinds:
            o.kinds = kinds
            if self.heap is not None:
                self.heap.on_refine(self, o)

    def split_kinds_each(self, o: Obj):
        if len(o.kinds) > 1:
            ks = sorted(o.kinds)
            c = self.ps.choose(len(ks), "kind")
            self.refine_kinds(o, [ks[c]])

    def setattr(self, o, name, value):
        if isinstance(o, Obj):
            old = o.cur.get(name, _UNREAD)
            if old is _UNREAD and o.lazy and self.heap is not None and self.heap.tracks(o, name):
                # keep the initial value reachable for the pre-state denotation: nothing to do,
                # init[name] is materialised on demand
                pass
            o.cur[name] = value
            self.ps.writes.append((o, name, old, value))
            return
        if isinstance(o, ClassVal):
            o.info.attrs[name] = value
            self.ps.writes.append((o, name, None, value))
            return
        if o is None:
            self.raise_("AttributeError", f"None.{name} = ...", implicit=True, site=name)
        if isinstance(o, (FuncVal,)) and name == "__doc__":
            return
        if isinstance(o, ExtAttr) or isinstance(o, Poison):
            raise OutOfSubset("setattr on external")
        raise OutOfSubset(f"setattr on {type(o).__name__}")

    # ---------------------------------------------------------------- calls
    def call(self, f, args, kwargs):
        if isinstance(f, BoundMethod):
            return self.call_function(f.func, [f.self_obj] + list(args), kwargs)
        if isinstance(f, FuncVal):
            return self.call_function(f, args, kwargs)
        if isinstance(f, ClassVal):
            return self.instantiate(f.info, args, kwargs)
        if isinstance(f, Builtin):
            return f.fn(self, list(args), kwargs)
        if isinstance(f, BoundBuiltin):
            return self.call_builtin_method(f.obj, f.name, list(args), kwargs)
        if isinstance(f, ExtAttr):
            return self.call_external(f.path, list(args), kwargs)
        if f is None:
            self.raise_("TypeError", "'NoneType' object is not callable", implicit=True)
        if hasattr(f, "call"):
            return f.call(self, list(args), kwargs)
        if isinstance(f, Poison):
            raise OutOfSubset(f"call of unsupported value: {f.why}")
        raise OutOfSubset(f"call of {type(f).__name__}")

    def call_external(self, path, args, kwargs):
        fn = self.external.get(path)
        if fn is None:
            raise OutOfSubset(f"external function without contract: {path}")
        return fn(self, args, kwargs)

    def call_method(self, o, name, args, kwargs):
        return self.call(self.getattr(o, name), args, kwargs)

    def call_function(self, f: FuncVal, args, kwargs, use_contract=True):
        c = self.contracts.get(f.qual) if use_contract else None
        if c is not None:
            return c(self, list(args), dict(kwargs), f)
        self.called_quals.add(f.qual)
        node = f.node
        env = Env(parent=f.env)
        if f.owner is not None:
            env.vars["__owner__"] = f.owner
            if node.args.args:
                env.vars["__self_name__"] = node.args.args[0].arg
        self.bind_args(f, node.args, list(args), dict(kwargs), env)
        self.call_depth += 1
        if self.call_depth > self.max_call_depth:
            self.call_depth -= 1
            raise OutOfSubset(f"call depth exceeded in {f.qual} (unbounded recursion needs a contract)")
        try:
            for st in node.body:
                self.exec_stmt(st, env)
        except ReturnEx as r:
            return r.value
        finally:
            self.call_depth -= 1
        return None

    def bind_args(self, f: FuncVal, a: ast.arguments, args, kwargs, env: Env):
        params = [p.arg for p in a.posonlyargs + a.args]
        defaults = a.defaults
        ndef = len(defaults)
        npar = len(params)
        if len(args) > npar and a.vararg is None:
            self.raise_("TypeError", f"{f.qual}: too many positional arguments", implicit=True)
        for i, p in enumerate(params):
            if i < len(args):
                if p in kwargs:
                    self.raise_("TypeError", f"{f.qual}: multiple values for {p}", implicit=True)
                env.vars[p] = args[i]
            elif p in kwargs:
                env.vars[p] = kwargs.pop(p)
            else:
                di = i - (npar - ndef)
                if di >= 0:
                    env.vars[p] = self.eval(defaults[di], f.env)
                else:
                    self.raise_("TypeError", f"{f.qual}: missing argument {p}", implicit=True)
        if a.vararg is not None:
            env.vars[a.vararg.arg] = tuple(args[npar:])
        for p, d in zip(a.kwonlyargs, a.kw_defaults):
            if p.arg in kwargs:
                env.vars[p.arg] = kwargs.pop(p.arg)
            elif d is not None:
                env.vars[p.arg] = self.eval(d, f.env)
            else:
                self.raise_("TypeError", f"{f.qual}: missing keyword argument {p.arg}", implicit=True)
        if a.kwarg is not None:
            env.vars[a.kwarg.arg] = DictObj(kwargs)
        elif kwargs:
            self.raise_("TypeError", f"{f.qual}: unexpected keyword {sorted(kwargs)}", implicit=True)

    def instantiate(self, ci: ClassInfo, args, kwargs):
        key = f"new:{ci.name}"
        c = self.contracts.get(key)
        if c is not None:
            return c(self, list(args), dict(kwargs), ci)
        if ci.is_namedtuple:
            vals = list(args)
            for n in ci.ann[len(vals) :]:
                if n in kwargs:
                    vals.append(kwargs.pop(n))
                else:
                    self.raise_("TypeError", f"{ci.name}: missing field {n}", implicit=True)
            if kwargs or len(vals) != len(ci.ann):
                self.raise_("TypeError", f"{ci.name}: bad arguments", implicit=True)
            return TupleObj(ci, vals)
        o = self.new_obj([ci.name], label=ci.name[:4].lower())
        if ci.is_exception:
            o.cur["args"] = tuple(args)
        init = ci.lookup("__init__")
        if ci.is_dataclass and init is None:
            names = ci.ann
            for i, n in enumerate(names):
                if i < len(args):
                    o.cur[n] = args[i]
                elif n in kwargs:
                    o.cur[n] = kwargs[n]
                else:
                    o.cur[n] = ci.lookup(n)[1] if ci.lookup(n) else None
            return o
        if init is not None:
            self.call_function(init[1], [o] + list(args), kwargs)
        elif (args or kwargs) and not ci.is_exception:
            self.raise_("TypeError", f"{ci.name}() takes no arguments", implicit=True)
        return o

    # ---------------------------------------------------------------- statements
    def exec_block(self, body, env):
        for st in body:
            self.exec_stmt(st, env)

    def exec_stmt(self, st, env: Env):
        m = getattr(self, "st_" + type(st).__name__, None)
        if m is None:
            raise OutOfSubset(f"statement {type(st).__name__} at line {getattr(st, 'lineno', '?')}")
        return m(st, env)

    def st_Expr(self, st, env):
        if isinstance(st.value, ast.Constant):
            return  # docstring / ellipsis
        self.eval(st.value, env)

    def st_Pass(self, st, env):
        return

    def st_Return(self, st, env):
        raise ReturnEx(self.eval(st.value, env) if st.value is not None else None)

    def st_Break(self, st, env):
        raise BreakEx()

    def st_Continue(self, st, env):
        raise ContinueEx()

    def st_Global(self, st, env):
        env.globals_.update(st.names)

    def st_Nonlocal(self, st, env):
        env.nonlocals.update(st.names)

    def st_Import(self, st, env):
        for a in st.names:
            root = a.name.split(".")[0]
            if root == PKG:
                raise OutOfSubset("absolute package import")
            env.assign(a.asname or root, ExtModule(_ext_alias(a.name)))

    def st_ImportFrom(self, st, env):
        cur = env.module
        target = self.resolve_import(cur, st.module, st.level)
        if target is None:
            for a in st.names:
                env.assign(a.asname or a.name, ExtAttr(f"{_ext_alias(st.module)}.{a.name}"))
            return
        path = self.module_path(target)
        if not os.path.exists(path):
            raise OutOfSubset(f"cannot resolve import {target}")
        if path.endswith("__init__.py") and st.module is None:
            # from . import x
            for a in st.names:
                sub = self.load_module(f"{target}.{a.name}")
                env.assign(a.asname or a.name, ModuleVal(sub))
            return
        m = self.load_module(target)
        for a in st.names:
            if a.name == "*":
                env.vars.update(m.env.vars)
                continue
            if a.name in m.env.vars:
                env.assign(a.asname or a.name, m.env.vars[a.name])
            else:
                subp = self.module_path(f"{target}.{a.name}")
                if os.path.exists(subp):
                    env.assign(a.asname or a.name, ModuleVal(self.load_module(f"{target}.{a.name}")))
                else:
                    raise OutOfSubset(f"cannot import {a.name} from {target}")

    def st_FunctionDef(self, st, env):
        decos = [_deco_name(d) for d in st.decorator_list]
        qual = st.name
        fv = FuncVal(st, env, env.module, None, qual=_qual(env, st.name))
        if decos and decos != [None]:
            raise OutOfSubset(f"decorated function {st.name}")
        env.assign(st.name, fv)

    def st_ClassDef(self, st, env):
        bases = []
        is_nt = False
        for b in st.bases:
            if isinstance(b, ast.Subscript):
                b = b.value
            name = b.id if isinstance(b, ast.Name) else b.attr if isinstance(b, ast.Attribute) else None
            if name == "NamedTuple":
                is_nt = True
                continue
            if name in ("Generic", "object"):
                continue
            try:
                bv = env.lookup(name)
            except KeyError:
                bv = self.builtins.get(name)
            if isinstance(bv, ClassVal):
                bases.append(bv.info)
            else:
                raise OutOfSubset(f"base class {name} of {st.name}")
        ci = ClassInfo(st.name, env.module, bases, st)
        ci.is_namedtuple = is_nt
        ci.is_exception = any(b.is_exception for b in bases)
        for d in st.decorator_list:
            if _deco_name(d) == "dataclass":
                ci.is_dataclass = True
            else:
                raise OutOfSubset(f"class decorator on {st.name}")
        for b in bases:
            if b.is_dataclass:
                ci.is_dataclass = True
                ci.ann = list(b.ann)
        cenv = Env(parent=env)
        for item in st.body:
            if isinstance(item, ast.FunctionDef):
                decos = [_deco_name(d) for d in item.decorator_list]
                fv = FuncVal(item, env, env.module, ci, qual=f"{st.name}.{item.name}")
                if decos == ["property"]:
                    ci.props[item.name] = fv
                elif not decos:
                    ci.methods[item.name] = fv
                else:
                    raise OutOfSubset(f"decorator {decos} on {st.name}.{item.name}")
            elif isinstance(item, ast.AnnAssign):
                if isinstance(item.target, ast.Name):
                    if item.target.id not in ci.ann:
                        ci.ann.append(item.target.id)
                    if item.value is not None:
                        ci.attrs[item.target.id] = self.eval(item.value, cenv)
                        cenv.vars[item.target.id] = ci.attrs[item.target.id]
            elif isinstance(item, ast.Assign):
                v = self.eval(item.value, cenv)
                for t in item.targets:
                    if isinstance(t, ast.Name):
                        ci.attrs[t.id] = v
                        cenv.vars[t.id] = v
            elif isinstance(item, ast.Expr) and isinstance(item.value, ast.Constant):
                pass
            elif isinstance(item, ast.Pass):
                pass
            else:
                raise OutOfSubset(f"class body statement {type(item).__name__} in {st.name}")
        self.classes[st.name] = ci
        env.assign(st.name, ClassVal(ci))

    def st_Assign(self, st, env):
        v = self.eval(st.value, env)
        for t in st.targets:
            self.assign_target(t, v, env)

    def st_AnnAssign(self, st, env):
        if st.value is not None:
            self.assign_target(st.target, self.eval(st.value, env), env)

    def st_AugAssign(self, st, env):
        cur = self.eval(_load(st.target), env)
        v = self.binop(st.op, cur, self.eval(st.value, env))
        self.assign_target(st.target, v, env)

    def assign_target(self, t, v, env):
        if isinstance(t, ast.Name):
            env.assign(t.id, v)
        elif isinstance(t, ast.Attribute):
            self.setattr(self.eval(t.value, env), t.attr, v)
        elif isinstance(t, (ast.Tuple, ast.List)):
            vals = self.unpack(v, len(t.elts))
            for tt, vv in zip(t.elts, vals):
                self.assign_target(tt, vv, env)
        elif isinstance(t, ast.Subscript):
            self.setitem(self.eval(t.value, env), self.eval_index(t.slice, env), v)
        else:
            raise OutOfSubset(f"assignment target {type(t).__name__}")

    def unpack(self, v, n):
        if isinstance(v, tuple):
            items = list(v)
        elif isinstance(v, TupleObj):
            items = list(v.values)
        elif isinstance(v, ListObj):
            items = list(v.items)
        elif v is None:
            self.raise_("TypeError", "cannot unpack None", implicit=True)
        else:
            raise OutOfSubset(f"unpack {type(v).__name__}")
        if len(items) != n:
            self.raise_("ValueError", "unpack length mismatch", implicit=True)
        return items

    def st_If(self, st, env):
        if self.cond(st.test, env, f"if@{st.lineno}"):
            self.exec_block(st.body, env)
        else:
            self.exec_block(st.orelse, env)

    def st_Assert(self, st, env):
        if not self.cond(st.test, env, f"assert@{st.lineno}"):
            self.raise_("AssertionError", "", site=f"assert@{st.lineno}")

    def st_Raise(self, st, env):
        if st.exc is None:
            raise OutOfSubset("bare raise")
        e = self.eval(st.exc, env)
        if isinstance(e, ClassVal):
            e = self.instantiate(e.info, [], {})
        if not isinstance(e, Obj):
            raise OutOfSubset("raise of non-exception")
        raise PyRaise(e, site=f"raise@{st.lineno}")

    def st_Try(self, st, env):
        if st.finalbody:
            raise OutOfSubset("try/finally")
        try:
            self.exec_block(st.body, env)
        except PyRaise as pr:
            for h in st.handlers:
                if h.type is None:
                    match = True
                else:
                    tv = self.eval(h.type, env)
                    tvs = tv if isinstance(tv, tuple) else (tv,)
                    match = any(self.isinstance_(pr.exc, t.info) is True for t in tvs)
                if match:
                    if h.name:
                        env.assign(h.name, pr.exc)
                    self.exec_block(h.body, env)
                    return
            raise
        else:
            self.exec_block(st.orelse, env)

    def st_While(self, st, env):
        key = self.loop_key(st, env)
        handler = self.loop_handlers.get(key) if hasattr(self, "loop_handlers") else None
        if handler is not None:
            return handler(self, st, env)
        m = _match_ancestor_walk(st)
        if m is not None and self.heap is not None and hasattr(self.heap, "summarise_ancestor_walk"):
            # loop of the exact shape `while isinstance(v.parent, K): v = v.parent` -> summary:
            # v becomes the highest ancestor-or-self reachable through parents that are all K
            var, kexpr = m
            x = env.lookup(var)
            ci = self.eval(kexpr, env)
            if isinstance(x, Obj) and isinstance(ci, ClassVal):
                env.assign(var, self.heap.summarise_ancestor_walk(self, x, ci.info))
                return
        n = 0
        while self.cond(st.test, env, f"while@{st.lineno}"):
            n += 1
            if n > self.max_unroll:
                raise OutOfSubset(f"loop at line {st.lineno} needs an invariant (unrolled {n}x)")
            try:
                self.exec_block(st.body, env)
            except BreakEx:
                return
            except ContinueEx:
                continue
        self.exec_block(st.orelse, env)

    max_unroll = 64

    def loop_key(self, st, env):
        return (env.module.name if env.module else "", st.lineno)

    def st_For(self, st, env):
        key = self.loop_key(st, env)
        handler = self.loop_handlers.get(key) if hasattr(self, "loop_handlers") else None
        if handler is not None:
            return handler(self, st, env)
        it = self.eval(st.iter, env)
        if hasattr(it, "for_loop"):
            return it.for_loop(self, st, env)  # summarised loop over a symbolic sequence
        items = self.iterate(it)
        for v in items:
            self.assign_target(st.target, v, env)
            try:
                self.exec_block(st.body, env)
            except BreakEx:
                return
            except ContinueEx:
                continue
        self.exec_block(st.orelse, env)

    def iterate(self, it):
        if isinstance(it, ListObj):
            return list(it.items)
        if isinstance(it, (tuple,)):
            return list(it)
        if isinstance(it, TupleObj):
            return list(it.values)
        if isinstance(it, SetObj):
            return list(it.items)
        if isinstance(it, DictObj):
            return list(it.items.keys())
        if isinstance(it, str):
            return list(it)
        if isinstance(it, range):
            return list(it)
        if hasattr(it, "iterate"):
            return it.iterate(self)
        if it is None:
            self.raise_("TypeError", "'NoneType' object is not iterable", implicit=True)
        raise OutOfSubset(f"iteration over {type(it).__name__} (needs a loop contract)")

    def st_With(self, st, env):
        raise OutOfSubset("with statement")

    def st_Delete(self, st, env):
        raise OutOfSubset("del statement")

    # ---------------------------------------------------------------- expressions
    def eval(self, e, env: Env):
        m = getattr(self, "ex_" + type(e).__name__, None)
        if m is None:
            raise OutOfSubset(f"expression {type(e).__name__} at line {getattr(e, 'lineno', '?')}")
        return m(e, env)

    def ex_Constant(self, e, env):
        if e.value is Ellipsis:
            return None
        return e.value

    def ex_Name(self, e, env):
        try:
            v = env.lookup(e.id)
        except KeyError:
            if e.id in self.builtins:
                return self.builtins[e.id]
            raise OutOfSubset(f"unknown name {e.id}")
        return v

    def ex_Attribute(self, e, env):
        return self.getattr(self.eval(e.value, env), e.attr)

    def ex_Tuple(self, e, env):
        return tuple(self.eval(x, env) for x in e.elts)

    def ex_List(self, e, env):
        return ListObj([self.eval(x, env) for x in e.elts])

    def ex_Set(self, e, env):
        return SetObj([self.eval(x, env) for x in e.elts])

    def ex_Dict(self, e, env):
        d = {}
        for k, v in zip(e.keys, e.values):
            if k is None:
                raise OutOfSubset("dict unpacking")
            d[self.eval(k, env)] = self.eval(v, env)
        return DictObj(d)

    def ex_BoolOp(self, e, env):
        if _boolean_valued(e):
            try:
                return self.peek_cond(e, env)
            except Unsafe:
                pass
        last = None
        if isinstance(e.op, ast.And):
            for x in e.values:
                last = self.eval(x, env)
                if not self.truth(last, f"and@{e.lineno}"):
                    return last if not (z3.is_expr(last) and z3.is_bool(last)) else False
            return last if not (z3.is_expr(last) and z3.is_bool(last)) else True
        for x in e.values:
            last = self.eval(x, env)
            if self.truth(last, f"or@{e.lineno}"):
                return last if not (z3.is_expr(last) and z3.is_bool(last)) else True
        return last if not (z3.is_expr(last) and z3.is_bool(last)) else False

    def ex_UnaryOp(self, e, env):
        return self.unaryop(e.op, self.eval(e.operand, env))

    def ex_BinOp(self, e, env):
        return self.binop(e.op, self.eval(e.left, env), self.eval(e.right, env))

    def ex_IfExp(self, e, env):
        if _boolean_valued(e):
            try:
                return self.peek_cond(e, env)
            except Unsafe:
                pass
        if self.cond(e.test, env, f"ifexp@{e.lineno}"):
            return self.eval(e.body, env)
        return self.eval(e.orelse, env)

    def ex_Compare(self, e, env):
        left = self.eval(e.left, env)
        result = True
        for op, r in zip(e.ops, e.comparators):
            right = self.eval(r, env)
            c = self.compare(op, left, right)
            if len(e.ops) == 1:
                return c
            if not self.truth(c, f"cmp@{e.lineno}"):
                return False
            left = right
        return result

    def ex_Call(self, e, env):
        # super()
        if isinstance(e.func, ast.Name) and e.func.id == "super" and not e.args:
            self_obj = env.lookup(_first_param(env))
            owner = _owner_class(env)
            if owner is None:
                raise OutOfSubset("super() outside a method")
            return SuperProxy(self_obj, owner)
        if isinstance(e.func, ast.Name) and e.func.id == "cast":
            return self.eval(e.args[1], env)
        f = self.eval(e.func, env)
        args = []
        for a in e.args:
            if isinstance(a, ast.Starred):
                args.extend(self.iterate(self.eval(a.value, env)))
            else:
                args.append(self.eval(a, env))
        kwargs = {}
        for k in e.keywords:
            if k.arg is None:
                d = self.eval(k.value, env)
                if not isinstance(d, DictObj):
                    raise OutOfSubset("** of non-dict")
                kwargs.update(d.items)
            else:
                kwargs[k.arg] = self.eval(k.value, env)
        return self.call(f, args, kwargs)

    def ex_JoinedStr(self, e, env):
        parts = []
        for v in e.values:
            if isinstance(v, ast.Constant):
                parts.append(v.value)
            else:
                val = self.eval(v.value, env)
                if isinstance(val, (int, float, bool)) or val is None:
                    if v.format_spec is not None:
                        spec = self.eval(v.format_spec, env)
                        val = format(val, spec) if isinstance(spec, str) else self.fresh_str([val])
                    else:
                        val = str(val)
                parts.append(val)
        return self.format_parts(parts)

    def ex_FormattedValue(self, e, env):
        return self.to_str(self.eval(e.value, env))

    def ex_Subscript(self, e, env):
        base = self.eval(e.value, env)
        if isinstance(e.slice, ast.Slice):
            lo = self.eval(e.slice.lower, env) if e.slice.lower is not None else None
            hi = self.eval(e.slice.upper, env) if e.slice.upper is not None else None
            if e.slice.step is not None:
                raise OutOfSubset("slice step")
            return self.getslice(base, lo, hi)
        return self.getitem(base, self.eval_index(e.slice, env))

    def eval_index(self, s, env):
        return self.eval(s, env)

    def getitem(self, base, idx):
        if isinstance(base, ListObj) or isinstance(base, tuple) or isinstance(base, str):
            items = base.items if isinstance(base, ListObj) else base
            if isinstance(idx, int):
                if -len(items) <= idx < len(items):
                    return items[idx]
                self.raise_("IndexError", "index out of range", implicit=True, site="index")
            raise OutOfSubset("symbolic index into concrete sequence")
        if isinstance(base, TupleObj):
            return self.getitem(base.values, idx)
        if isinstance(base, DictObj):
            for k, v in base.items.items():
                r = self.eq(k, idx)
                if self.truth(r, "dictkey"):
                    return v
            self.raise_("KeyError", repr(idx), implicit=True, site="key")
        if isinstance(base, SymDict):
            m = base.mem(self, idx)
            if not self.truth(m, "symdictkey"):
                self.raise_("KeyError", repr(idx), implicit=True, site="key")
            return base.get(self, idx)
        if isinstance(base, ExtAttr) or isinstance(base, ClassVal):
            return base  # typing subscripts: List[int], BinaryTreeNode["MathExpression"]
        if hasattr(base, "getitem"):
            return base.getitem(self, idx)
        if base is None:
            self.raise_("TypeError", "'NoneType' object is not subscriptable", implicit=True)
        raise OutOfSubset(f"subscript of {type(base).__name__}")

    def getslice(self, base, lo, hi):
        if isinstance(base, ListObj) and _isconc(lo) and _isconc(hi):
            return ListObj(base.items[lo:hi])
        if isinstance(base, (str, tuple)) and _isconc(lo) and _isconc(hi):
            return base[lo:hi]
        if hasattr(base, "getslice"):
            return base.getslice(self, lo, hi)
        raise OutOfSubset(f"slice of {type(base).__name__}")

    def setitem(self, base, idx, v):
        if isinstance(base, (ListObj, DictObj)):
            self.ps.writes.append((base, "<items>", None, None))
        if isinstance(base, ListObj) and isinstance(idx, int):
            if -len(base.items) <= idx < len(base.items):
                base.items[idx] = v
                return
            self.raise_("IndexError", "assignment index out of range", implicit=True)
        if isinstance(base, DictObj):
            for k in list(base.items):
                r = self.eq(k, idx)
                if self.truth(r, "dictkey"):
                    base.items[k] = v
                    return
            base.items[idx] = v
            return
        if hasattr(base, "setitem"):
            return base.setitem(self, idx, v)
        raise OutOfSubset(f"item assignment on {type(base).__name__}")

    def ex_ListComp(self, e, env):
        r = self._comp(e, env, lambda sub: self.eval(e.elt, sub))
        if hasattr(r, "sl"):
            return r.sl  # symbolic list produced by a container contract
        return ListObj(r)

    def ex_GeneratorExp(self, e, env):
        return ListObj(self._comp(e, env, lambda sub: self.eval(e.elt, sub)))

    def ex_SetComp(self, e, env):
        return SetObj(self._comp(e, env, lambda sub: self.eval(e.elt, sub)))

    def _comp(self, e, env, elt):
        if len(e.generators) != 1:
            raise OutOfSubset("nested comprehension")
        g = e.generators[0]
        it = self.eval(g.iter, env)
        if hasattr(it, "comprehend"):
            return it.comprehend(self, e, g, env)
        if isinstance(it, SymDict) or isinstance(it, SymList):
            raise SymComp(it, g, e)
        out = []
        for v in self.iterate(it):
            sub = Env(parent=env)
            self.assign_target(g.target, v, sub)
            if all(self.truth(self.eval(c, sub), "compif") for c in g.ifs):
                out.append(elt(sub))
        return out

    def ex_Lambda(self, e, env):
        fn = ast.FunctionDef(
            name="<lambda>", args=e.args, body=[ast.Return(value=e.body)], decorator_list=[], lineno=e.lineno
        )
        return FuncVal(fn, env, env.module, None, qual="<lambda>")

    def ex_Starred(self, e, env):
        raise OutOfSubset("starred expression")

    # ---------------------------------------------------------------- fork-free conditions
    def peek(self, e, env):
        """Side-effect-free evaluation of a pure expression; raises Unsafe when the expression
        could have an effect, raise, or fork the heap."""
        if isinstance(e, ast.Constant):
            return e.value
        if isinstance(e, ast.Name):
            try:
                return env.lookup(e.id)
            except KeyError:
                if e.id in ("True", "False", "None"):
                    return {"True": True, "False": False, "None": None}[e.id]
                raise Unsafe()
        if isinstance(e, ast.Attribute):
            base = self.peek(e.value, env)
            if isinstance(base, TupleObj) and e.attr in base.cls.ann:
                return base.values[base.cls.ann.index(e.attr)]
            if isinstance(base, Obj) and e.attr in base.cur:
                return base.cur[e.attr]
            raise Unsafe()
        if isinstance(e, (ast.Compare, ast.BoolOp, ast.UnaryOp, ast.IfExp)):
            return self.peek_cond(e, env)
        raise Unsafe()

    def _scalar(self, v):
        return (
            getattr(v, "pure_compare", False)
            or v is None
            or v is NAN
            or v is INF
            or isinstance(v, (bool, int, float, Fraction, str, Num, IdStr))
            or (z3.is_expr(v) and z3.is_bool(v))
        )

    def peek_cond(self, e, env):
        """Truth value of a pure expression as python bool / z3 Bool, without forking."""
        if isinstance(e, ast.BoolOp):
            is_and = isinstance(e.op, ast.And)
            acc = True if is_and else False
            for x in e.values:
                c = self.peek_cond(x, env)
                if is_and:
                    if c is False:
                        return False
                    acc = b_and(acc, c)
                else:
                    if c is True:
                        return True
                    acc = b_or(acc, c)
            return acc
        if isinstance(e, ast.UnaryOp) and isinstance(e.op, ast.Not):
            return b_not(self.peek_cond(e.operand, env))
        if isinstance(e, ast.Compare):
            if len(e.ops) != 1:
                raise Unsafe()
            a = self.peek(e.left, env)
            b = self.peek(e.comparators[0], env)
            op = e.ops[0]
            if isinstance(op, (ast.Is, ast.IsNot)):
                if not (self._scalar(a) or isinstance(a, Obj)) or not (self._scalar(b) or isinstance(b, Obj)):
                    raise Unsafe()
                return self.compare(op, a, b)
            if isinstance(op, (ast.Eq, ast.NotEq)):
                if not (self._scalar(a) or isinstance(a, Obj)) or not (self._scalar(b) or isinstance(b, Obj)):
                    raise Unsafe()
                return self.compare(op, a, b)
            if isinstance(op, (ast.Lt, ast.LtE, ast.Gt, ast.GtE)):
                if _isnum(a) and _isnum(b) and not isinstance(a, bool) and not isinstance(b, bool):
                    return self.compare(op, a, b)
                if getattr(a, "pure_compare", False) or getattr(b, "pure_compare", False):
                    return self.compare(op, a, b)
            raise Unsafe()
        if isinstance(e, ast.IfExp):
            c = self.peek_cond(e.test, env)
            if c is True:
                return self.peek_cond(e.body, env)
            if c is False:
                return self.peek_cond(e.orelse, env)
            t = self.peek_cond(e.body, env)
            f = self.peek_cond(e.orelse, env)
            return z3.If(c, zbool(t), zbool(f))
        v = self.peek(e, env)
        return self.truth_nofork(v)

    def truth_nofork(self, v):
        if v is None:
            return False
        if isinstance(v, bool):
            return v
        if z3.is_expr(v) and z3.is_bool(v):
            return v
        if v is NAN or v is INF:
            return True
        if isinstance(v, (int, float, Fraction)):
            return v != 0
        if isinstance(v, Num):
            return v.v != 0
        if isinstance(v, str):
            return len(v) > 0
        if isinstance(v, IdStr):
            return True
        if isinstance(v, (tuple,)):
            return len(v) > 0
        if isinstance(v, TupleObj):
            return len(v.values) > 0
        if isinstance(v, ListObj):
            return len(v.items) > 0
        if isinstance(v, Obj):
            return self.obj_truth(v)
        raise Unsafe()

    def cond(self, e, env, label):
        """Decide a branch condition: merged into one decision when the test is pure."""
        try:
            c = self.peek_cond(e, env)
        except Unsafe:
            return self.truth(self.eval(e, env), label)
        return self.truth(c, label)

    # ---------------------------------------------------------------- isinstance
    def isinstance_(self, v, ci: ClassInfo):
        """Returns True/False, or 'split' information handled by the caller via truth()."""
        if isinstance(v, Obj):
            yes = self.kinds_subclassing(v.kinds, ci)
            if len(yes) == len(v.kinds):
                return True
            if not yes:
                return False
            c = self.ps.choose(2, f"isinstance.{ci.name}")
            if c == 0:
                self.refine_kinds(v, yes)
                return True
            self.refine_kinds(v, v.kinds - yes)
            return False
        if isinstance(v, TupleObj):
            return v.cls.is_subclass(ci)
        return False

    # ---------------------------------------------------------------- builtins
    def _make_builtins(self):
        B = {}

        def reg(name):
            def deco(fn):
                B[name] = Builtin(name, fn)
                return fn

            return deco

        @reg("isinstance")
        def _isinstance(I, args, kw):
            v, t = args
            ts = t if isinstance(t, tuple) else (t,)
            # evaluate as a disjunction, splitting at most once per alternative
            res = False
            for tt in ts:
                if isinstance(tt, ClassVal):
                    r = I.isinstance_(v, tt.info)
                elif isinstance(tt, Builtin):
                    r = _isinstance_builtin(I, v, tt.name)
                elif isinstance(tt, ExtAttr) and tt.path in _NP_TYPES:
                    r = _isinstance_np(v, tt.path)
                elif isinstance(tt, (ExtAttr, Poison)):
                    raise OutOfSubset("isinstance with external type")
                else:
                    raise OutOfSubset("isinstance with non-class")
                if r is True:
                    return True
                if r is not False:
                    res = b_or(res, r)
            return res

        @reg("len")
        def _len(I, args, kw):
            (v,) = args
            if isinstance(v, (ListObj, SetObj, DictObj)):
                return len(v.items)
            if isinstance(v, (str, tuple)):
                return len(v)
            if isinstance(v, TupleObj):
                return len(v.values)
            if isinstance(v, SymList):
                return Num(v.length, TAG_PYINT)
            if hasattr(v, "length"):
                return v.length(I)
            if v is None:
                I.raise_("TypeError", "len(None)", implicit=True)
            raise OutOfSubset(f"len of {type(v).__name__}")

        @reg("bool")
        def _bool(I, args, kw):
            if not args:
                return False
            v = args[0]
            if z3.is_expr(v) and z3.is_bool(v):
                return v
            return I.truth(v, "bool()")

        @reg("str")
        def _str(I, args, kw):
            if not args:
                return ""
            return I.to_str(args[0])

        @reg("print")
        def _print(I, args, kw):
            return None

        @reg("list")
        def _list(I, args, kw):
            if not args:
                return ListObj([])
            if hasattr(args[0], "to_list"):
                return args[0].to_list(I)
            return ListObj(I.iterate(args[0]))

        @reg("tuple")
        def _tuple(I, args, kw):
            if not args:
                return ()
            return tuple(I.iterate(args[0]))

        @reg("set")
        def _set(I, args, kw):
            if not args:
                return SetObj([])
            out = []
            for v in I.iterate(args[0]):
                if not any(I.truth(I.eq(v, w), "setdup") for w in out):
                    out.append(v)
            return SetObj(out)

        @reg("dict")
        def _dict(I, args, kw):
            if args:
                raise OutOfSubset("dict(...)")
            return DictObj(dict(kw))

        @reg("range")
        def _range(I, args, kw):
            if all(isinstance(a, int) for a in args):
                return range(*args)
            return SymRange(*args) if len(args) > 1 else SymRange(0, args[0])

        @reg("enumerate")
        def _enumerate(I, args, kw):
            return ListObj([(i, v) for i, v in enumerate(I.iterate(args[0]))])

        @reg("zip")
        def _zip(I, args, kw):
            return ListObj(list(zip(*[I.iterate(a) for a in args])))

        @reg("getattr")
        def _getattr(I, args, kw):
            o, name = args[0], args[1]
            if len(args) == 3:
                if o is None:
                    return args[2]
                if isinstance(o, Obj):
                    if name in o.cur:
                        return o.cur[name]
                    if I.resolve_member(o, name) is not None or o.lazy:
                        if o.lazy and I.heap is not None and not I.heap.has_field(I, o, name):
                            return args[2]
                        return I.getattr(o, name)
                    return args[2]
            return I.getattr(o, name)

        @reg("int")
        def _int(I, args, kw):
            (v,) = args
            if isinstance(v, bool):
                return int(v)
            if isinstance(v, int):
                return v
            if isinstance(v, (float, Fraction)):
                return int(v)
            if isinstance(v, Num):
                if z3.is_int(v.v):
                    return Num(v.v, TAG_PYINT, getattr(v, "rounded", False))
                # truncation toward zero
                t = z3.If(v.v >= 0, z3.ToInt(v.v), -z3.ToInt(-v.v))
                return Num(t, TAG_PYINT, getattr(v, "rounded", False))
            if v is NAN:
                I.raise_("ValueError", "cannot convert float NaN to integer", implicit=True)
            return I.call_external("py.int", [v], {})

        @reg("float")
        def _float(I, args, kw):
            (v,) = args
            if isinstance(v, str):
                if v == "nan":
                    return NAN
                try:
                    return float(v)
                except ValueError:
                    I.raise_("ValueError", "could not convert string to float", implicit=True)
            if isinstance(v, (int, float, Fraction)) and not isinstance(v, bool):
                return float(v) if not isinstance(v, Fraction) else v
            if isinstance(v, Num):
                return Num(zreal(v), TAG_PYFLOAT, getattr(v, "rounded", False))
            if v is NAN:
                return NAN
            return I.call_external("py.float", [v], {})

        @reg("abs")
        def _abs(I, args, kw):
            (v,) = args
            if v is NAN:
                return NAN
            if v is INF:
                return INF
            if isinstance(v, Num):
                return Num(z3.If(v.v >= 0, v.v, -v.v), v.tag)
            return abs(v)

        @reg("round")
        def _round(I, args, kw):
            # round(x[, n]): some number within half a unit of the n-th decimal place of x (the
            # rounded value is not otherwise determined in the real-number model)
            v = args[0]
            n = args[1] if len(args) > 1 else kw.get("ndigits")
            if v is NAN or v is INF:
                if n is None:
                    I.raise_("ValueError" if v is NAN else "OverflowError", "cannot convert float NaN/infinity to integer", implicit=True)
                return v
            if isinstance(v, (int, float)) and not isinstance(v, bool) and (n is None or isinstance(n, int)):
                return round(v) if n is None else round(v, n)
            if isinstance(v, Num) and (n is None or isinstance(n, int)):
                r = I.ps.fresh("round")
                half = z3.RealVal(5) / z3.RealVal(10 ** (n + 1)) if (n or 0) >= 0 else z3.RealVal(5 * 10 ** (-n - 1))
                I.ps.assume(z3.And(r - v.v <= half, v.v - r <= half))
                if n is None:
                    I.ps.assume(z3.IsInt(r))
                    return Num(r, (False, False))
                return Num(r, v.tag)
            raise OutOfSubset("round() of this operand")

        @reg("min")
        def _min(I, args, kw):
            return _minmax(I, args, True)

        @reg("max")
        def _max(I, args, kw):
            return _minmax(I, args, False)

        @reg("type")
        def _type(I, args, kw):
            (v,) = args
            if isinstance(v, Obj):
                I.split_kinds_each(v)
                return ClassVal(I.classes[next(iter(v.kinds))])
            raise OutOfSubset("type() of non-object")

        @reg("format")
        def _format(I, args, kw):
            return I.fresh_str(args)

        @reg("sorted")
        def _sorted(I, args, kw):
            items = I.iterate(args[0])
            if all(isinstance(x, (int, float, str)) for x in items):
                return ListObj(sorted(items))
            raise OutOfSubset("sorted on symbolic values")

        for name in list(self.classes):
            B[name] = ClassVal(self.classes[name])
        for t in ("TypeVar", "Any", "Optional", "List", "Dict"):
            pass
        B["True"], B["False"], B["None"] = True, False, None
        B["NotImplemented"] = None
        return B

    def call_builtin_method(self, o, name, args, kw):
        if hasattr(o, "method"):
            return o.method(self, name, args, kw)
        if isinstance(o, (ListObj, DictObj, SetObj)) and name in _MUTATORS:
            self.ps.writes.append((o, "<items>", None, None))
        if isinstance(o, ListObj):
            if name == "append":
                o.items.append(args[0])
                return None
            if name == "pop":
                if not o.items:
                    self.raise_("IndexError", "pop from empty list", implicit=True, site="pop")
                i = args[0] if args else -1
                if not isinstance(i, int) or not (-len(o.items) <= i < len(o.items)):
                    self.raise_("IndexError", "pop index out of range", implicit=True, site="pop")
                return o.items.pop(i)
            if name == "insert":
                o.items.insert(args[0], args[1])
                return None
            if name == "extend":
                o.items.extend(self.iterate(args[0]))
                return None
            if name == "sort":
                if all(isinstance(x, (int, float, str)) for x in o.items):
                    o.items.sort()
                    return None
                raise OutOfSubset("sort of symbolic list")
            if name == "copy":
                return ListObj(o.items)
            if name == "index":
                for i, x in enumerate(o.items):
                    if self.truth(self.eq(x, args[0]), "index"):
                        return i
                self.raise_("ValueError", "not in list", implicit=True)
        if isinstance(o, DictObj):
            if name == "get":
                for k, v in o.items.items():
                    if self.truth(self.eq(k, args[0]), "dictget"):
                        return v
                return args[1] if len(args) > 1 else None
            if name == "values":
                return ListObj(list(o.items.values()))
            if name == "keys":
                return ListObj(list(o.items.keys()))
            if name == "items":
                return ListObj([(k, v) for k, v in o.items.items()])
        if isinstance(o, SetObj):
            if name == "add":
                if not any(self.truth(self.eq(args[0], w), "setadd") for w in o.items):
                    o.items.append(args[0])
                return None
            if name == "union":
                out = SetObj(o.items)
                for v in self.iterate(args[0]):
                    self.call_builtin_method(out, "add", [v], {})
                return out
        if isinstance(o, str):
            if name == "format":
                return self.format_str(o, args, kw)
            if name == "join":
                items = self.iterate(args[0])
                if all(isinstance(x, str) for x in items):
                    return o.join(items)
                if self.str_mode == "opaque":
                    return self.fresh_str(items)
                out = None
                for i, x in enumerate(items):
                    if i:
                        out = self.str_concat(out, o) if o else out
                    out = x if out is None else self.str_concat(out, x)
                return out if out is not None else ""
            if name in ("lower", "upper", "strip") and not args:
                return getattr(o, name)()
            if name in ("startswith", "endswith") and isinstance(args[0], str):
                return getattr(o, name)(args[0])
        if isinstance(o, IdStr):
            if name in ("lower",):
                return o
            if name in ("strip", "lstrip", "rstrip", "replace", "upper", "casefold", "translate"):
                return self.ps.fresh_id()  # some other (unknown) string
            if name == "split":
                return ListObj([self.ps.fresh_id()])
        raise OutOfSubset(f"method {type(o).__name__}.{name}")

    def format_str(self, fmt: str, args, kw):
        # only {} / {name} / {0} with optional trivial specs
        import string

        parts = []
        auto = 0
        for lit, field, spec, conv in string.Formatter().parse(fmt):
            if lit:
                parts.append(lit)
            if field is None:
                continue
            if field == "":
                v = args[auto]
                auto += 1
            elif field.isdigit():
                v = args[int(field)]
            else:
                v = kw[field]
            if isinstance(v, (int, float, bool)) or v is None:
                v = format(v, spec) if spec and not isinstance(v, type(None)) else str(v)
            parts.append(v)
        return self.format_parts(parts)


_UNREAD = object()
_MUTATORS = {"append", "pop", "insert", "extend", "sort", "add", "remove", "clear", "update", "setdefault", "discard", "reverse"}


class ObjDict:
    """`obj.__dict__` of a modelled object: a view of its instance attributes.  Only for attributes the
    lazily initialised heap does not track (scratch / cache attributes); reads of an attribute never
    written are 'absent'."""

    def __init__(self, o: Obj):
        self.o = o

    def _absent(self, I, name):
        o = self.o
        if not isinstance(name, str):
            raise OutOfSubset("__dict__ with a non-literal key")
        if name in o.cur:
            return False
        if o.lazy and I.heap is not None and I.heap.tracks(o, name):
            raise OutOfSubset(f"__dict__ access to the modelled field {name}")
        if o.lazy:
            # an input object: an earlier call may have left the attribute there
            raise OutOfSubset(f"__dict__ lookup of '{name}' on an input object (its earlier state is not modelled)")
        return True

    def method(self, I, name, args, kw):
        if name == "get":
            key = args[0]
            default = args[1] if len(args) > 1 else None
            return default if self._absent(I, key) else self.o.cur[key]
        if name == "pop":
            key = args[0]
            if self._absent(I, key):
                if len(args) > 1:
                    return args[1]
                I.raise_("KeyError", repr(key), implicit=True, site="__dict__.pop")
            v = self.o.cur.pop(key)
            I.ps.writes.append((self.o, key, v, _UNREAD))
            return v
        if name == "setdefault":
            key = args[0]
            if self._absent(I, key):
                I.setattr(self.o, key, args[1] if len(args) > 1 else None)
            return self.o.cur[key]
        raise OutOfSubset(f"__dict__.{name}")

    def getitem(self, I, key):
        if self._absent(I, key):
            I.raise_("KeyError", repr(key), implicit=True, site="__dict__[]")
        return self.o.cur[key]

    def setitem(self, I, key, v):
        if not isinstance(key, str):
            raise OutOfSubset("__dict__ with a non-literal key")
        I.setattr(self.o, key, v)

    def contains(self, I, key):
        return not self._absent(I, key)


class ClassVal:
    def __init__(self, info: ClassInfo):
        self.info = info

    def __repr__(self):
        return f"<classval {self.info.name}>"


class ModuleVal:
    def __init__(self, mod):
        self.mod = mod


class BoundBuiltin:
    def __init__(self, obj, name):
        self.obj = obj
        self.name = name


class SymRange:
    def __init__(self, lo, hi):
        self.lo, self.hi = lo, hi


class Unsafe(Exception):
    pass


class SymComp(Exception):
    def __init__(self, it, gen, node):
        self.it, self.gen, self.node = it, gen, node


# --------------------------------------------------------------------------- small helpers
def hash_str(s: str) -> int:
    h = 0
    for ch in s:
        h = (h * 131 + ord(ch)) % (1 << 61)
    return h


def _isnum(x):
    return (isinstance(x, (int, float, Fraction, Num)) and not isinstance(x, bool)) or x is NAN or x is INF or isinstance(x, bool)


def _isstr(x):
    return isinstance(x, (str, IdStr, OpaqueStr)) or hasattr(x, "concat")


def _isconc(x):
    return x is None or isinstance(x, int)


def _coerce_pair(a, b):
    x, y = zarith(a), zarith(b)
    if z3.is_int(x) and not z3.is_int(y):
        x = z3.ToReal(x)
    elif z3.is_int(y) and not z3.is_int(x):
        y = z3.ToReal(y)
    return x, y


def zarith_pair_eq(a, b):
    x, y = _coerce_pair(a, b)
    r = z3.simplify(x == y)
    if z3.is_true(r):
        return True
    if z3.is_false(r):
        return False
    return r


def _minmax(I, args, is_min):
    if len(args) == 1 and isinstance(args[0], SymList):
        return I.call_external("py.min" if is_min else "py.max", args, {})
    items = I.iterate(args[0]) if len(args) == 1 else list(args)
    if not items:
        I.raise_("ValueError", "min/max of empty sequence", implicit=True)
    cur = items[0]
    for x in items[1:]:
        c = I.compare(ast.Lt() if is_min else ast.Gt(), x, cur)
        if I.truth(c, "minmax"):
            cur = x
    return cur


_NP_TYPES = ("np.generic", "np.number", "np.integer", "np.floating", "np.int64", "np.float64")


def _isinstance_np(v, path):
    """numpy scalar types against the number tag (isfloat, isnp)."""
    if isinstance(v, Num):
        f, n = v.tag
        if path in ("np.generic", "np.number"):
            return n
        if path in ("np.integer", "np.int64"):
            return b_and(n, b_not(f))
        return b_and(n, f)
    return False


def _isinstance_builtin(I, v, name):
    if name == "str":
        return isinstance(v, (str, IdStr, OpaqueStr)) or hasattr(v, "concat")
    if name == "int":
        if isinstance(v, bool) or isinstance(v, int):
            return True
        if isinstance(v, Num):
            f, n = v.tag
            return b_and(b_not(f), b_not(n))
        return False
    if name == "float":
        if isinstance(v, float) or v is NAN or v is INF:
            return True
        if isinstance(v, Num):
            return v.tag[0]  # np.float64 subclasses float
        return False
    if name == "bool":
        return isinstance(v, bool) or (z3.is_expr(v) and z3.is_bool(v))
    if name == "list":
        return isinstance(v, (ListObj, SymList))
    if name == "tuple":
        return isinstance(v, (tuple, TupleObj))
    if name == "dict":
        return isinstance(v, (DictObj, SymDict))
    raise OutOfSubset(f"isinstance with builtin {name}")


def _match_ancestor_walk(st):
    """`while isinstance(V.parent, K): V = V.parent` with V a plain name; returns (V, K-expression)."""
    t = st.test
    if st.orelse or len(st.body) != 1:
        return None
    if not (isinstance(t, ast.Call) and isinstance(t.func, ast.Name) and t.func.id == "isinstance" and len(t.args) == 2 and not t.keywords):
        return None
    a = t.args[0]
    if not (isinstance(a, ast.Attribute) and a.attr == "parent" and isinstance(a.value, ast.Name)):
        return None
    v = a.value.id
    b = st.body[0]
    if not (isinstance(b, ast.Assign) and len(b.targets) == 1 and isinstance(b.targets[0], ast.Name) and b.targets[0].id == v):
        return None
    r = b.value
    if not (isinstance(r, ast.Attribute) and r.attr == "parent" and isinstance(r.value, ast.Name) and r.value.id == v):
        return None
    if not isinstance(t.args[1], (ast.Name, ast.Attribute)):
        return None
    return v, t.args[1]


def _boolean_valued(e):
    """Syntactically boolean-valued expression (its value equals its truth value)."""
    if isinstance(e, ast.Compare):
        return True
    if isinstance(e, ast.Constant):
        return isinstance(e.value, bool)
    if isinstance(e, ast.UnaryOp) and isinstance(e.op, ast.Not):
        return True
    if isinstance(e, ast.BoolOp):
        return all(_boolean_valued(x) for x in e.values)
    if isinstance(e, ast.IfExp):
        return _boolean_valued(e.body) and _boolean_valued(e.orelse)
    return False


def _assigned_names(st):
    out = []
    for n in ast.walk(st):
        if isinstance(n, ast.Name) and isinstance(n.ctx, ast.Store):
            out.append(n.id)
        elif isinstance(n, (ast.FunctionDef, ast.ClassDef)):
            out.append(n.name)
        elif isinstance(n, ast.alias):
            out.append(n.asname or n.name.split(".")[0])
    return out


def _scan_scope_decls(st, env):
    for n in ast.walk(st):
        if isinstance(n, (ast.FunctionDef, ast.Lambda)) and n is not st:
            continue
        if isinstance(n, ast.Nonlocal):
            pass
    # declarations are processed when executed (they come first in the bodies under contract)


def _deco_name(d):
    if isinstance(d, ast.Name):
        return d.id
    if isinstance(d, ast.Attribute):
        return d.attr
    if isinstance(d, ast.Call):
        return _deco_name(d.func)
    return "?"


def _qual(env, name):
    return name


def _load(t):
    import copy

    t2 = copy.copy(t)
    t2.ctx = ast.Load()
    return t2


def _ext_alias(name):
    return {"numpy": "np"}.get(name, name)


def _first_param(env):
    e = env
    while e is not None:
        if "__self_name__" in e.vars:
            return e.vars["__self_name__"]
        e = e.parent
    return "self"


def _owner_class(env):
    e = env
    while e is not None:
        if "__owner__" in e.vars:
            return e.vars["__owner__"]
        e = e.parent
    return None
