"""Lazily initialised heap for arbitrary binary trees (LINKS invariant only): every node has
0, left-only, right-only or 2 children; child.parent is the node; no sharing.  Used by the proofs
about tree.py (C13, C14, C15) whose quantifier is "all binary tree shapes"."""
from __future__ import annotations

from typing import Any, Dict, List, Optional

import z3

from .interp import Interp
from .values import IdStr, Obj, OutOfSubset, PathAbort


class Sub:
    """Atom of a traversal sequence: the (possibly empty) subtree stored in an unread child slot."""

    def __init__(self, owner: Obj, side: str):
        self.owner, self.side = owner, side

    def key(self):
        return ("sub", self.owner.oid, self.side)

    def __repr__(self):
        return f"<{self.owner.label}.{self.side}*>"


class LinksHeap:
    FIELDS = ("left", "right", "parent", "id")

    def __init__(self, I: Interp, kinds=("BinaryTreeNode",), extra_fields=None):
        self.I = I
        I.heap = self
        self.kinds = tuple(kinds)
        self.nodes: List[Obj] = []
        self.extra = extra_fields or {}

    def new_input(self, label="n", kinds=None) -> Obj:
        o = self.I.new_obj(kinds or self.kinds, lazy=True, label=label)
        self.nodes.append(o)
        return o

    def tracks(self, o, name):
        return name in ("left", "right", "parent")

    def has_field(self, I, o, name):
        return name in self.FIELDS or name in self.extra

    def on_refine(self, I, o, propagate=True):
        return

    def read_field(self, I, o: Obj, name):
        if name in o.init:
            v = o.init[name]
        else:
            v = self._read(I, o, name)
            o.init[name] = v
        o.cur[name] = v
        return v

    MAX_LAZY = 14

    def _count(self, I):
        n = I.ps.memo.get("lazy-nodes", 0) + 1
        I.ps.memo["lazy-nodes"] = n
        if n > self.MAX_LAZY:
            raise OutOfSubset("unbounded walk over the tree without an invariant (more than 14 nodes materialised on one path)")

    def _read(self, I, o: Obj, name):
        if name in ("left", "right"):
            c = I.ps.choose(2, name)
            if c == 0:
                return None
            self._count(I)
            ch = self.new_input(f"{o.label}.{name[0]}")
            ch.init["parent"] = o
            ch.cur["parent"] = o
            return ch
        if name == "parent":
            c = I.ps.choose(3, "parent")
            if c == 0:
                return None
            side = "left" if c == 1 else "right"
            self._count(I)
            p = self.new_input(f"{o.label}^")
            p.init[side] = o
            p.cur[side] = o
            return p
        if name == "id":
            return IdStr(z3.Int(f"id_{o.oid}"))
        if name == "value":
            # payload of a constant node: an arbitrary number
            from .values import Num

            return Num(z3.Real(f"value_{o.oid}"), (z3.Bool(f"value_{o.oid}_isfloat"), False))
        if name == "identifier":
            return IdStr(z3.Int(f"ident_{o.oid}"))
        if name in self.extra:
            return self.extra[name](I, o)
        I.raise_("AttributeError", f"{o.clsname}.{name}", implicit=True, site=name)

    # ------------------------------------------------------------------ sequences over the heap
    def top(self, o: Obj, init=True) -> Obj:
        d = (lambda x: x.init) if init else (lambda x: x.cur)
        seen = set()
        while isinstance(d(o).get("parent"), Obj):
            if id(o) in seen:
                raise OutOfSubset("parent cycle")
            seen.add(id(o))
            o = d(o)["parent"]
        return o

    def inorder(self, o, init=True, seen=None) -> List[Any]:
        """In-order sequence of the materialised region below o; unread child slots are atoms."""
        if seen is None:
            seen = set()
        if o is None:
            return []
        if id(o) in seen:
            return [("cycle", o.oid)]
        seen.add(id(o))
        d = o.init if init else o.cur
        out: List[Any] = []
        for side in ("left", "right"):
            if side == "right":
                out.append(("node", o.oid))
            if side in d:
                out += self.inorder(d[side], init, seen)
            elif side in o.init and not init:
                out += self.inorder(o.init[side], init, seen)
            elif o.lazy:
                out.append(("sub", o.oid, side))
        return out

    def link_problems(self, root: Obj) -> List[str]:
        """LINKS over the current heap below root."""
        probs: List[str] = []
        seen = set()

        def visit(o, parent):
            if id(o) in seen:
                probs.append(f"{o} reachable twice")
                return
            seen.add(id(o))
            if parent is not None:
                p = o.cur.get("parent", o.init.get("parent", "unread"))
                if p is not parent:
                    probs.append(f"{o}.parent is {p}, expected {parent}")
            for side in ("left", "right"):
                c = o.cur.get(side, o.init.get(side))
                if isinstance(c, Obj):
                    visit(c, o)

        visit(root, None)
        return probs
