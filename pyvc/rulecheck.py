"""Symbolic execution of `can_apply_to` followed by `apply_to` for one rule configuration on a
lazily initialised WF tree, and generation/discharge of the obligations behind C01, C02, C06, C07.
"""
from __future__ import annotations

import hashlib
import time
from typing import Any, Dict, List, Optional

import z3

from . import externals
from .explore import Verdict, prove, prove_split
from .heap import ALL12, BINARY, DEFPOW, KCODE, LEAF, NONLEAF, POW, UNARY, ExprHeap, Gap, StructureError
from .interp import Interp, PathState
from .values import NAN, IdStr, Num, Obj, OutOfSubset, PathAbort, PyRaise, b_and, b_not, tag_of, zbool, zreal

RULE_CONFIGS = [
    ("associative_swap", "mathy_core.rules.associative_swap", "AssociativeSwapRule", {}),
    ("commutative_swap", "mathy_core.rules.commutative_swap", "CommutativeSwapRule", {}),
    ("commutative_swap[preferred=False]", "mathy_core.rules.commutative_swap", "CommutativeSwapRule", {"preferred": False}),
    ("constants_simplify", "mathy_core.rules.constants_simplify", "ConstantsSimplifyRule", {}),
    ("distributive_factor_out", "mathy_core.rules.distributive_factor_out", "DistributiveFactorOutRule", {}),
    ("distributive_factor_out[constants=True]", "mathy_core.rules.distributive_factor_out", "DistributiveFactorOutRule", {"constants": True}),
    ("distributive_multiply_across", "mathy_core.rules.distributive_multiply_across", "DistributiveMultiplyRule", {}),
    ("multiplicative_inverse", "mathy_core.rules.multiplicative_inverse", "MultiplicativeInverseRule", {}),
    ("restate_subtraction", "mathy_core.rules.restate_subtraction", "RestateSubtractionRule", {}),
    ("variable_multiply", "mathy_core.rules.variable_multiply", "VariableMultiplyRule", {}),
    ("balanced_move", "mathy_core.rules.balanced_move", "BalancedMoveRule", {}),
]

STRUCT_FIELDS = ("left", "right", "parent", "value", "identifier", "child_on_left")
BOOKKEEPING = ("_changed", "cloned_node", "cloned_target", "r_index", "_rendering_change", "classes")


class Obligation:
    def __init__(self, prop, clause, verdict: Verdict, detail="", witness=None):
        self.prop = prop
        self.clause = clause
        self.verdict = verdict
        self.detail = detail
        self.witness = witness

    @property
    def ok(self):
        return self.verdict.status == "proved"


class PathReport:
    def __init__(self):
        self.cfg = ""
        self.labels: List[str] = []
        self.applicable = False
        self.kind = ""  # classification returned by get_type when available
        self.obligations: List[Obligation] = []
        self.shape: Dict[str, List[str]] = {}
        self.error: Optional[str] = None
        self.trace: List[int] = []
        self.solver_time = 0.0
        self.note = ""
        self.concolic = None

    def digest(self):
        h = hashlib.sha1(("|".join(self.labels)).encode()).hexdigest()[:10]
        return h


def make_interp(repo=None) -> Interp:
    I = Interp(repo) if repo else Interp()
    externals.install(I)
    # load the modules under verification from the current source
    for _, mod, _, _ in RULE_CONFIGS:
        I.load_module(mod)
    I.load_module("mathy_core.util")
    return I


def install_contracts(I: Interp, heap: ExprHeap):
    """Callee contracts (recursive / looping functions).  Each is proved against its body in the
    C13/C14/C05 checks; loop-free callees are executed from source (inlined)."""
    I.contracts = {
        "BinaryTreeNode.get_root": heap.c_get_root,
        "BinaryTreeNode.get_root_side": heap.c_get_root_side,
        "BinaryTreeNode.clone": heap.c_clone,
        "MathExpression.clone": heap.c_clone,
        "ConstantExpression.clone": heap.c_clone,
        "VariableExpression.clone": heap.c_clone,
        "MathExpression.clone_from_root": heap.c_clone_from_root,
        "MathExpression.find_type": heap.c_find_type,
        "MathExpression.all_changed": heap.c_all_changed,
        "factor": c_factor,
    }
    # every override of clone in the node hierarchy is covered by the same contract (proved per class in C13)
    for c in I.classes.values():
        if "clone" in c.methods and any(b.name == "BinaryTreeNode" for b in c.mro()):
            I.contracts[f"{c.name}.clone"] = heap.c_clone


# --------------------------------------------------------------------------- util.factor contract
def c_factor(I, args, kwargs, f):
    """Contract of util.factor (proved against the loop in the C16 check):
    NaN -> {} ; value <= 0 -> {1: value};  otherwise a dict D whose keys are exactly
    1, value, and the pairs i, value/i for integers 2 <= i <= sqrt(value) with value/i an integer,
    and D[k] * k == value for every key k."""
    from .values import SymDict, DictObj

    (value,) = args
    I.ps.memo["abstraction:factor"] = True  # the table is characterised, not enumerated
    if value is NAN:
        return DictObj({})
    if not isinstance(value, Num):
        value = Num(zreal(value), (isinstance(value, float), False))
    v = z3.simplify(zreal(value))
    # np.sqrt(value) inside factor: a Python int outside [-2^63, 2^64) is not converted by numpy
    tg = tag_of(value)
    pyint = b_and(b_not(tg[0]), b_not(tg[1]))
    if not (pyint is False) and I.truth(z3.And(zbool(pyint), z3.Or(v >= 2**64, v < -(2**63))), "factor:int-beyond-64-bits"):
        I.raise_("TypeError", "loop of ufunc does not support argument 0 of type int", implicit=True, site="util.factor: np.sqrt of a Python int beyond 64 bits")
    mk = ("factor", v.sexpr())
    if mk in I.ps.memo:  # factor is a pure function: equal arguments give equal tables
        return I.ps.memo[mk]
    n = I.ps.next_sym = I.ps.next_sym + 1
    member = z3.Function(f"isfactor!{n}", z3.RealSort(), z3.BoolSort())
    I.ps.assume(member(z3.RealVal(1)))
    I.ps.assume(z3.Implies(v > 0, member(v)))

    def facts(kz):
        """What membership of k means (instantiated per queried term)."""
        fk = ("factor.facts", n, kz.sexpr())
        if fk in I.ps.memo:
            return
        I.ps.memo[fk] = True
        i = I.ps.fresh("div", "Real")
        I.ps.assume(
            z3.Implies(
                member(kz),
                z3.Or(
                    kz == 1,
                    z3.And(v > 0, kz == v),
                    z3.And(v > 0, z3.IsInt(i), i >= 2, i * i <= v + 2 * i + 1, z3.IsInt(v / i), z3.Or(kz == i, kz == v / i)),
                ),
            )
        )

    def mem(I, k):
        if not isinstance(k, (Num, int, float)) or isinstance(k, bool):
            return False
        kz = z3.simplify(zreal(k))
        facts(kz)
        return member(kz)

    def get(I, k):
        kz = z3.simplify(zreal(k))
        gk = ("factor.get", n, kz.sexpr())
        if gk not in I.ps.memo:
            facts(kz)
            I.ps.memo[gk] = Num(v / kz, (I.ps.fresh("ff", "Bool"), False))
        return I.ps.memo[gk]

    d = SymDict(mem, get, descr=f"factor({v})", known_keys=[z3.RealVal(1)])
    d.value = v
    d.member = member
    d.comprehend = lambda I2, e, g, env: _factor_comprehension(I2, d, e, g, env)
    I.ps.memo[mk] = d
    return d


def _factor_comprehension(I, d, e, g, env):
    """[k for k in r_factors if k in l_factors]  ->  symbolic list whose elements are common keys."""
    from .interp import Env, SymComp
    from .values import SymList, SymDict
    import ast

    # evaluate the filter on a generic element
    if not (isinstance(e.elt, ast.Name) and isinstance(g.target, ast.Name) and e.elt.id == g.target.id):
        raise OutOfSubset("comprehension over factor table with non-identity element")
    names = sorted({x.id for c in g.ifs for x in ast.walk(c) if isinstance(x, ast.Name) and x.id != g.target.id})
    ck = ("comp", id(d), tuple(ast.dump(c) for c in g.ifs), tuple(id(env.lookup(x)) for x in names))
    if ck in I.ps.memo:
        return I.ps.memo[ck]
    n = I.ps.fresh("ncommon", "Int")
    I.ps.assume(n >= 0)

    def pred(I2, x):
        sub = Env(parent=env)
        sub.vars[g.target.id] = x
        c = d.mem(I2, x)
        for cond in g.ifs:
            r = I2.eval(cond, sub)
            if isinstance(r, bool):
                c = z3.And(c, z3.BoolVal(r))
            else:
                c = z3.And(c, r)
        return c

    # relate emptiness to the keys known to be members
    one = Num(z3.RealVal(1), (False, False))
    I.ps.assume(z3.Implies(pred(I, one), n > 0))
    # an empty source dict gives an empty list; a non-empty list has a witness
    w = Num(I.ps.fresh("wcommon", "Real"), (I.ps.fresh("wf", "Bool"), False))
    I.ps.assume(z3.Implies(n > 0, pred(I, w)))
    lst = SymList(n, elem_pred=pred, descr="common factors")
    I.ps.memo[ck] = _SymListWrap(lst)
    return I.ps.memo[ck]


class _SymListWrap(list):
    """ListComp wraps the result in ListObj(...); smuggle the SymList through."""

    def __init__(self, sl):
        super().__init__()
        self.sl = sl


# --------------------------------------------------------------------------- one path
class RuleRun:
    def __init__(self, I: Interp, cfg):
        self.I = I
        self.cfg = cfg

    def __call__(self, ps: PathState) -> PathReport:
        I = self.I
        name, mod, cls, opts = self.cfg
        I.ps = ps
        I.call_depth = 0
        rep = PathReport()
        rep.cfg = name
        heap = ExprHeap(I)
        self.heap = heap
        install_contracts(I, heap)
        m = I.modules[mod]
        # reset the only class-level mutable state (fresh-id counter)
        I.classes["BinaryTreeNode"].attrs["_idCounter"] = 0
        node = heap.new_input(ALL12, "node")
        from . import values as _values

        _values.EPOCH[0] = 0
        rule = I.instantiate(m.env.vars[cls].info, [], dict(opts))
        _values.EPOCH[0] = 1  # everything created from here on is local to the calls under check
        t0 = time.time()
        try:
            self._run(I, ps, heap, node, rule, rep)
        except OutOfSubset as e:
            rep.error = f"out-of-subset: {e}"
        rep.labels = list(ps.labels)
        rep.trace = [c for c, _ in ps.trace]
        rep.solver_time = ps.solver_time
        rep.shape = shape_of(heap, node)
        return rep

    def _run(self, I, ps, heap, node, rule, rep):
        # ---------------- phase 1: can_apply_to (C06 purity, determinism by construction)
        w0 = len(ps.writes)
        try:
            can = I.call_method(rule, "can_apply_to", [node], {})
        except PyRaise as pr:
            rep.applicable = False
            rep.obligations.append(
                Obligation("C06", "can_apply_to/no-raise", Verdict("refuted"), f"raised {pr.exc.clsname} at {pr.site}")
            )
            return
        impure = [w for w in ps.writes[w0:] if _preexisting(w[0], node, rule)]
        rep.obligations.append(
            Obligation(
                "C06",
                "can_apply_to/pure",
                Verdict("proved" if not impure else "refuted"),
                "" if not impure else f"writes {[(str(w[0]), w[1]) for w in impure[:3]]}",
            )
        )
        if not (isinstance(can, bool) or (z3.is_expr(can) and z3.is_bool(can))):
            rep.obligations.append(Obligation("C06", "can_apply_to/returns-bool", Verdict("refuted"), repr(can)))
            can = I.truth(can, "can")
        else:
            can = I.truth(can, "can")
        rep.applicable = bool(can)
        if not can:
            # engine guard, other direction: on a sample of the paths where the engine says "not applicable"
            # CPython must say the same on a concrete tree satisfying the path condition
            exact = not any(isinstance(k, str) and k.startswith("abstraction:") for k in ps.memo)
            if exact and (len(ps.labels) + sum(ord(c) for c in "".join(ps.labels))) % 2 == 0:
                try:
                    self._concolic_model(I, heap, node, list(ps.pc) + heap.kind_domains(), rep, expect=False)
                except Exception as e:  # noqa: BLE001  (guards never mask verdicts)
                    rep.note = f"engine guard skipped: {e!r}"
            return
        # ---------------- phase 2: apply_to
        w1 = len(ps.writes)
        try:
            change = I.call_method(rule, "apply_to", [node], {})
        except PyRaise as pr:
            rep.obligations.append(
                Obligation(
                    "C06",
                    "apply_to/no-raise",
                    Verdict("refuted"),
                    f"raised {pr.exc.clsname} at {pr.site}" + (" (implicit)" if pr.implicit else ""),
                )
            )
            return
        result = change.cur.get("result") if isinstance(change, Obj) else None
        if not isinstance(result, Obj) or not (result.kinds <= frozenset(ALL12)):
            rep.obligations.append(Obligation("C06", "apply_to/result-is-expression", Verdict("refuted"), repr(result)))
            return
        rep.obligations.append(Obligation("C06", "apply_to/no-raise", Verdict("proved")))
        rep.obligations.append(Obligation("C06", "apply_to/result-is-expression", Verdict("proved")))
        self._post_obligations(I, ps, heap, node, rule, result, rep, ps.writes[w1:])

    # ------------------------------------------------------------------ C01/C02/C07
    def _post_obligations(self, I, ps, heap: ExprHeap, node, rule, result, rep, writes):
        t, _, done = heap.chain_top(I, result)
        local = (not done) and t is heap.top and t.mirror is None and heap.root is None
        clone_based = False
        if local:
            # the rewritten region still hangs below the (unread, hence untouched) context of the
            # chain top t: equivalence of the whole tree follows from equivalence at t
            pre_root = post_root = t
        else:
            post_root = heap.c_get_root(I, [result], {}, None)
            pre_root = heap.root if heap.root is not None else heap.declare_root(I, heap.top)
            clone_based = post_root.mirror is not None and _orig(post_root) is pre_root
            if post_root is not pre_root and not clone_based and heap.open_gaps():
                rep.obligations.append(
                    Obligation("C07", "structure/context-kept", Verdict("refuted"), "result tree no longer hangs in its context")
                )
                return
        # decide whether the tree is an equation
        if "EqualExpression" in pre_root.kinds and len(pre_root.kinds) > 1:
            c = ps.choose(2, "root-is-equal")
            if c == 0:
                I.refine_kinds(pre_root, ["EqualExpression"])
            else:
                I.refine_kinds(pre_root, pre_root.kinds - {"EqualExpression"})
        is_eq = pre_root.kinds == frozenset(["EqualExpression"])
        # ---- structure (C07)
        payload: List[str] = []
        try:
            problems = check_structure(I, heap, post_root, floating=local, payload=payload)
        except StructureError as e:
            problems = [str(e)]
        rep.obligations.append(
            Obligation("C09", "closure/constant-payload", Verdict("proved" if not payload else "refuted"), "; ".join(payload[:3]))
        )
        for gp in heap.open_gaps():
            low = gp.lower
            if "parent" in low.cur and low.cur["parent"] is not low.init.get("parent", object()):
                problems.append(f"{low} was re-parented although its (unread) parent still points to it")
        rep.obligations.append(
            Obligation("C07", "structure/well-formed", Verdict("proved" if not problems else "refuted"), "; ".join(problems[:4]))
        )
        # ---- frame
        bad = frame_violations(heap, node, pre_root, writes, clone_based)
        rep.obligations.append(
            Obligation("C07", "frame/untouched-context", Verdict("proved" if not bad else "refuted"), "; ".join(bad[:4]))
        )
        if problems:
            return
        # ---- value / equation
        if not self._wants("value") and not self._wants("vars"):
            return
        heap.pre_axioms(I)
        if is_eq and post_root.kinds != frozenset(["EqualExpression"]):
            rep.obligations.append(
                Obligation("C02", "equation/stays-equation", Verdict("refuted"), f"root became {post_root.clsname}")
            )
            return

        def make_goal(seed):
            memo = dict(seed)
            if is_eq:
                L0 = heap.complete(I, pre_root, "left")
                R0 = heap.complete(I, pre_root, "right")
                l0v, l0d = heap.pre(I, L0)
                r0v, r0d = heap.pre(I, R0)
                l1v, l1d = heap.post(I, heap.cur_child(I, post_root, "left"), memo)
                r1v, r1d = heap.post(I, heap.cur_child(I, post_root, "right"), memo)
                return z3.Implies(z3.And(l0d, r0d, l1d, r1d), (l0v == r0v) == (l1v == r1v))
            pv, pd = heap.pre(I, pre_root)
            qv, qd = heap.post(I, post_root, memo)
            return z3.Implies(z3.And(pd, qd), pv == qv)

        prop, clause = ("C02", "equation/same-solutions") if is_eq else ("C01", "value/preserved")
        if self._wants("value") and is_eq:
            # "never divides by zero": an equation that was defined stays defined
            try:
                L0 = heap.complete(I, pre_root, "left")
                R0 = heap.complete(I, pre_root, "right")
                memo = {}
                d0 = z3.And(heap.pre(I, L0)[1], heap.pre(I, R0)[1])
                d1 = z3.And(heap.post(I, heap.cur_child(I, post_root, "left"), memo)[1], heap.post(I, heap.cur_child(I, post_root, "right"), memo)[1])
                axioms = heap.pre_axioms(I)
                gd = z3.Implies(d0, d1)
                axioms += pow_instances([gd] + axioms + list(ps.pc))
                splits = relevant_splits(kind_splits(heap, node), [gd] + axioms)
                vd = prove_split(list(ps.pc) + heap.kind_domains(), axioms, gd, [(k, cs) for k, cs, _ in splits], timeout_ms=self.timeout_ms)
                dd = decode_cases(getattr(vd, "failed_cases", []), splits) if vd.status != "proved" else ""
                vd.model = None
                rep.obligations.append(Obligation("C02", "equation/defined-stays-defined", vd, detail=dd))
            except StructureError:
                pass
        if self._wants("value"):
            try:
                self._prove_value(I, ps, heap, node, result, make_goal, prop, clause, rep)
            except StructureError as e:
                rep.obligations.append(Obligation("C07", "structure/well-formed", Verdict("refuted"), str(e)))
                return
        if self._wants("vars"):
            vv = z3.Int("v!any")
            gv = heap.hasvar_pre(I, pre_root, vv) == heap.hasvar_post(I, post_root, vv)
            v2 = prove(list(ps.pc) + heap.kind_domains(), hasvar_axioms(I, heap, vv), gv, timeout_ms=self.timeout_ms)
            v2.model = None
            rep.obligations.append(Obligation("C07", "variables/same-set", v2))

    def _find_cut(self, I, heap, node, result):
        """Lowest pair (a, b): pre-state subtree a (containing the rewritten node) whose slot in
        its parent now holds b.  Proving a ~ b first makes the obligation at the root a congruence."""
        anc = set()
        o = node
        while isinstance(o, Obj):
            anc.add(id(o))
            o = o.init.get("parent")
        b = result
        seen = set()
        while isinstance(b, Obj) and id(b) not in seen:
            seen.add(id(b))
            g = b.cur.get("parent")
            if not isinstance(g, Obj):
                return None
            side = "left" if g.cur.get("left") is b else "right" if g.cur.get("right") is b else None
            if side is None:
                return None
            if g.lazy and g.mirror is None and side in g.init:
                a = g.init[side]
                if isinstance(a, Obj) and id(a) in anc:
                    return a, b
            b = g
        return None

    def _prove_value(self, I, ps, heap, node, result, make_goal, prop, clause, rep):
        pc = list(ps.pc) + heap.kind_domains()
        cut = self._find_cut(I, heap, node, result)
        v = None
        if cut is not None:
            a, b = cut
            av, ad = heap.pre(I, a)
            bv, bd = heap.post(I, b, {})
            lemma = z3.Implies(z3.And(ad, bd), av == bv)
            axioms = heap.pre_axioms(I)
            axioms += pow_instances([lemma] + axioms + list(ps.pc))
            splits = relevant_splits(kind_splits(heap, node), [lemma] + axioms)
            v1 = prove_split(pc, axioms, lemma, [(k, cs) for k, cs, _ in splits], timeout_ms=self.timeout_ms)
            if v1.status == "proved":
                # the root obligation with the replaced subtree read as its old value (justified by
                # the lemma wherever both are defined)
                goal2 = make_goal({id(b): (av, z3.And(bd, ad))})
                axioms = heap.pre_axioms(I)
                splits2 = relevant_splits(kind_splits(heap, node), [goal2])
                v2 = prove_split(pc, axioms, goal2, [(k, cs) for k, cs, _ in splits2], timeout_ms=self.timeout_ms)
                if v2.status == "proved":
                    v2.seconds += v1.seconds
                    v2.backend = "+".join(sorted(set(v1.backend.split("+")) | set(v2.backend.split("+"))))
                    v2.reason = "cut"
                    v = v2
        if v is None:
            goal = make_goal({})
            axioms = heap.pre_axioms(I)  # completion may have added ghost operands
            axioms += pow_instances([goal] + axioms + list(ps.pc))
            splits = relevant_splits(kind_splits(heap, node), [goal] + axioms)
            v = prove_split(pc, axioms, goal, [(k, cs) for k, cs, _ in splits], timeout_ms=self.timeout_ms)
        else:
            splits = []
        wit = None
        detail = ""
        if v.status != "proved":
            detail = decode_cases(getattr(v, "failed_cases", []), splits)
        if v.status == "refuted" and v.model is not None:
            try:
                wit = witness_from_model(I, heap, node, v.model, self.cfg)
            except Exception as e:  # witness extraction must never mask the verdict
                wit = {"error": repr(e)}
        v.model = None
        rep.obligations.append(Obligation(prop, clause, v, detail=detail, witness=wit))
        if v.status == "proved" and (len(rep.labels) + sum(ord(c) for c in "".join(ps.labels))) % 5 == 0:
            self._engine_guards(I, ps, heap, node, make_goal, pc, rep)

    def _engine_guards(self, I, ps, heap, node, make_goal, pc, rep):
        """Guards against a vacuous / unsound engine, on a sample of the proved paths:
        (1) canary: the same obligation with the post-value shifted by one must NOT be provable;
        (2) concolic: a model of the path condition is turned into a concrete tree for the native replay."""
        try:
            goal = make_goal({})
            bad = None
            # shift: value + 1 / flipped truth of the equation
            if z3.is_implies(goal):
                body = goal.arg(1)
                if z3.is_eq(body) and not z3.is_bool(body.arg(0)):
                    bad = z3.Implies(goal.arg(0), body.arg(0) == body.arg(1) + 1)
                elif z3.is_eq(body):
                    bad = z3.Implies(goal.arg(0), body.arg(0) == z3.Not(body.arg(1)))
            if bad is not None:
                axioms = heap.pre_axioms(I)
                axioms += pow_instances([bad] + axioms + list(ps.pc))
                c = prove(pc, axioms, bad, timeout_ms=self.timeout_ms)
                # 'proved' would mean the engine can prove anything on this path (contradictory hypotheses)
                ok = c.status != "proved"
                c.model = None
                if not ok:
                    # provable only because "both defined" is impossible on this path (e.g. a folded
                    # division by the literal zero)?  Then the obligation is vacuous, not the engine unsound.
                    hs = z3.Solver()
                    hs.set("timeout", 5000)
                    for c_ in list(pc) + list(axioms):
                        hs.add(c_)
                    hs.add(goal.arg(0))
                    if hs.check() == z3.unsat:
                        rep.obligations.append(Obligation("ENGINE", "vacuous/never-both-defined", Verdict("proved"), "old and new value are never both defined on this path"))
                        ok = None
                if ok is not None:
                    rep.obligations.append(Obligation("ENGINE", "canary/shifted-value-not-provable", Verdict("proved" if ok else "refuted"), "" if ok else "false obligation was proved: path hypotheses are contradictory"))
            self._concolic_model(I, heap, node, pc, rep, expect=True)
        except Exception as e:  # noqa: BLE001  (guards never mask verdicts)
            rep.note = f"engine guard skipped: {e!r}"

    def _concolic_model(self, I, heap, node, pc, rep, expect):
        s = z3.Solver()
        s.set("timeout", 3000)
        for c_ in pc:
            s.add(c_)
        for a in heap.pre_axioms(I):
            s.add(a)
        for a in pow_instances(list(pc)):
            s.add(a)
        # prefer small constants (util.factor is trial division: a boundary-sized model costs minutes natively)
        small = [z3.And(o.ghost["cval"] >= -1000, o.ghost["cval"] <= 1000) for o in list(heap.nodes) if isinstance(o.ghost, dict) and dict.__contains__(o.ghost, "cval")]
        s.push()
        for c_ in small:
            s.add(c_)
        if s.check() != z3.sat:
            s.pop()
            if s.check() != z3.sat:
                return
        rep.concolic = witness_from_model(I, heap, node, s.model(), self.cfg)
        if isinstance(rep.concolic, dict):
            rep.concolic["expect_applicable"] = bool(expect)

    timeout_ms = 10000
    want = None

    def _wants(self, what):
        return self.want is None or what in self.want


def relevant_splits(splits, terms):
    """Keep only the kind variables that occur in the given terms."""
    ids = set()
    seen = set()

    def walk(t):
        if t.get_id() in seen:
            return
        seen.add(t.get_id())
        if z3.is_const(t) and t.decl().kind() == z3.Z3_OP_UNINTERPRETED:
            ids.add(t.get_id())
        for c in t.children():
            walk(c)

    for t in terms:
        walk(t)
    return [sp for sp in splits if sp[0].get_id() in ids]


def _orig(o):
    while o.mirror is not None:
        o = o.mirror[1]
    return o


def _preexisting(o, node, rule):
    if isinstance(o, Obj):
        return o.lazy and o.mirror is None or o is rule
    if hasattr(o, "epoch"):
        return o.epoch < 1  # a container that outlives the call (hidden state of the rule)
    return True


def kind_splits(heap: ExprHeap, node=None):
    """Kind variables of materialised nodes whose kind is still undetermined on this path."""
    out = []
    seen = set()
    paths = _paths_from(node) if node is not None else {}
    for o in heap.nodes:
        if len(o.kinds) <= 1 or "k" not in o.ghost:
            continue
        k = o.ghost["k"]
        if k.get_id() in seen:
            continue
        structural = any(f in o.init or f in o.cur for f in ("left", "right")) or o.ghost.get("gap") is not None
        if not structural:
            continue
        seen.add(k.get_id())
        out.append((k, [KCODE[x] for x in sorted(o.kinds)], paths.get(id(_orig(o)), o.label)))
    return out


def decode_cases(failed, splits):
    out = []
    for combo, status in failed:
        parts = [f"{lab}={ALL12[c].replace('Expression', '')}" for (_, _, lab), c in zip(splits, combo)]
        out.append(",".join(parts) + f":{status}")
    return " | ".join(out)


def _paths_from(node):
    paths = {}

    def walk(o, path, depth):
        if not isinstance(o, Obj) or id(o) in paths or depth > 6:
            return
        paths[id(o)] = path
        for f in ("left", "right", "parent"):
            c = o.init.get(f)
            if isinstance(c, Obj):
                walk(c, f"{path}.{f}", depth + 1)

    walk(node, "node", 0)
    return paths


# --------------------------------------------------------------------------- structure
def check_structure(I, heap: ExprHeap, root: Obj, floating=False, payload=None) -> List[str]:
    """Links, arity, sharing, root (C07).  Payload defects of constants/variables (not part of
    C07's statement, but of the WF invariant that C09's induction needs) are appended to `payload`."""
    problems: List[str] = []
    if payload is None:
        payload = []
    if floating:
        if "parent" in root.cur:
            problems.append(f"{root}.parent was touched although its context still points to it")
    elif root.cur.get("parent", None) is not None:
        problems.append("root has a parent")
    seen: Dict[int, Obj] = {}

    def visit(o, parent, is_root):
        if isinstance(o, Gap):
            return visit(o.lower, None, False) if False else None
        if id(o) in seen:
            problems.append(f"node {o} occurs twice in the tree")
            return
        seen[id(o)] = o
        if not (o.kinds <= frozenset(ALL12)):
            problems.append(f"{o} is not an expression node")
            return
        if not is_root:
            if "EqualExpression" in o.kinds:
                problems.append(f"equation node {o} below the root")
            if "parent" in o.cur:
                if o.cur["parent"] is not parent:
                    problems.append(f"{o}.parent is {o.cur['parent']} but it is a child of {parent}")
            elif not (o.lazy or o.mirror is not None):
                problems.append(f"{o} has no parent field")
            elif o.init.get("parent", parent) is not parent and "parent" in o.init:
                problems.append(f"{o}.parent (unwritten) is {o.init['parent']} but it is a child of {parent}")
        materialised = o.lazy or o.mirror is not None
        l = o.cur.get("left", "unread" if materialised else None)
        r = o.cur.get("right", "unread" if materialised else None)
        kinds = o.kinds
        if kinds <= frozenset(BINARY):
            if l is None or r is None:
                problems.append(f"binary {o} lacks an operand")
        elif kinds <= frozenset(UNARY):
            col = o.cur.get("child_on_left", False)
            if col is not False:
                problems.append(f"unary {o} has child_on_left={col}")
            if r is None:
                problems.append(f"unary {o} lacks its operand")
            if l is not None and l != "unread":
                problems.append(f"unary {o} has a left child")
        elif kinds <= frozenset(LEAF):
            if (l is not None and l != "unread") or (r is not None and r != "unread"):
                problems.append(f"leaf {o} has children")
            if kinds == frozenset(["ConstantExpression"]) and "value" in o.cur:
                v = o.cur["value"]
                if v is None or v is NAN or not (isinstance(v, (Num, int, float)) and not isinstance(v, bool)):
                    payload.append(f"constant {o} holds {v!r}")
                elif isinstance(v, Num):
                    isnp, isfloat = v.tag[1], v.tag[0]
                    from .values import b_and, b_not, zbool
                    bad = z3.simplify(zbool(b_and(isnp, b_not(isfloat))))
                    if not z3.is_false(bad):
                        # may it be a fixed-width numpy integer?
                        if I.ps._check(bad):
                            payload.append(f"constant {o} may hold a fixed-width numpy integer")
            if kinds == frozenset(["VariableExpression"]) and "identifier" in o.cur:
                v = o.cur["identifier"]
                if not isinstance(v, (IdStr, str)):
                    payload.append(f"variable {o} has identifier {v!r}")
        else:
            # mixed kind set: only possible for untouched input nodes
            if any(f in [w[1] for w in I.ps.writes if w[0] is o] for f in ("left", "right")):
                problems.append(f"{o} of undetermined kind was restructured")
        if kinds == frozenset(["FactorialExpression"]) and isinstance(r, Obj):
            if r.kinds != frozenset(["ConstantExpression"]) and not (r.lazy and r is o.init.get("right")):
                problems.append(f"factorial {o} applied to a non-constant")
        for c in (l, r):
            if isinstance(c, Obj):
                visit(c, o, False)

    visit(root, None, True)
    return problems


def frame_violations(heap: ExprHeap, node: Obj, pre_root: Obj, writes, clone_based) -> List[str]:
    bad = []
    allowed = set()
    if not clone_based:
        # the rewritten neighbourhood: the subtree of node's parent (or node), plus the child
        # pointer of the grand-parent, plus the root of an equation
        p = node.init.get("parent") if isinstance(node.init.get("parent"), Obj) else None
        anchor = p or node

        def collect(o):
            if not isinstance(o, Obj) or id(o) in allowed:
                return
            allowed.add(id(o))
            for s in ("left", "right"):
                collect(o.init.get(s))

        collect(anchor)
        gp = anchor.init.get("parent") if isinstance(anchor.init.get("parent"), Obj) else None
        if gp is not None:
            allowed.add(id(gp))
    for o, f, old, new in writes:
        if not isinstance(o, Obj):
            continue
        if f not in STRUCT_FIELDS:
            continue
        if o.fresh:
            continue
        if clone_based:
            bad.append(f"write to {o}.{f} of the tree the copy was cloned from")
        elif id(o) not in allowed:
            bad.append(f"write to {o}.{f} outside the rewritten neighbourhood")
        elif o.ghost.get("is_ghost"):
            bad.append(f"write to unmaterialised {o}.{f}")
    return bad


# --------------------------------------------------------------------------- pow / hasvar axioms
def pow_instances(terms) -> List[Any]:
    """Instances of the three facts about real powers (trusted base) for the pow-terms present."""
    seen = set()
    pows = []

    def walk(t):
        if t.get_id() in seen:
            return
        seen.add(t.get_id())
        if z3.is_app(t):
            if t.decl().name() in (POW.name(), DEFPOW.name()) and t.num_args() == 2:
                pows.append(t)
            for c in t.children():
                walk(c)

    for t in terms:
        walk(t)
    out = []
    bases = {}
    for p in pows:
        b, e = p.arg(0), p.arg(1)
        bases.setdefault(b.get_id(), b)
        if z3.is_add(e) and e.num_args() >= 2:
            args = [e.arg(i) for i in range(e.num_args())]
            e1, e2 = args[0], (args[1] if len(args) == 2 else z3.Sum(args[1:]))
            out.append(
                z3.Implies(
                    z3.And(DEFPOW(b, e1), DEFPOW(b, e2)),
                    z3.And(DEFPOW(b, e), POW(b, e) == POW(b, e1) * POW(b, e2)),
                )
            )
    for b in bases.values():
        out.append(z3.And(POW(b, z3.RealVal(1)) == b, DEFPOW(b, z3.RealVal(1))))
        out.append(z3.And(POW(b, z3.RealVal(0)) == 1, DEFPOW(b, z3.RealVal(0))))
    # where the real power is defined (as the evaluator computes it: 0^0 = 1, a pole or a negative base
    # with a fractional exponent has no value)
    for p in pows:
        b, e = p.arg(0), p.arg(1)
        out.append(DEFPOW(b, e) == z3.Or(b > 0, z3.And(b == 0, e >= 0), z3.And(b < 0, z3.IsInt(e))))
    return out


def hasvar_axioms(I, heap: ExprHeap, v):
    """hasvar of a materialised input node unfolds over its initial operands."""
    out = []
    for o in list(heap.nodes):
        if o.mirror is not None or not o.lazy:
            continue
        gapped = heap.is_gapped(o)
        if not any(f in o.init for f in ("left", "right", "identifier")) and not (o.kinds <= frozenset(LEAF)) and not gapped:
            continue
        out.append(o.ghost["hasvar"](v) == heap._hasvar(I, o, v, True, {}))
    return out


# --------------------------------------------------------------------------- shapes & witnesses
def shape_of(heap: ExprHeap, node: Obj) -> Dict[str, List[str]]:
    out: Dict[str, List[str]] = {}
    seen = set()

    def short(k):
        return k.replace("Expression", "")

    def walk(o, path, depth):
        if not isinstance(o, Obj) or id(o) in seen or depth > 6:
            return
        seen.add(id(o))
        out[path] = sorted(short(k) for k in o.kinds)
        for f in ("left", "right"):
            if f in o.init:
                c = o.init[f]
                if isinstance(c, Obj):
                    walk(c, f"{path}.{f}", depth + 1)
                elif c is None:
                    pass
        p = o.init.get("parent")
        if isinstance(p, Obj):
            walk(p, f"{path}.parent", depth + 1)
        elif "parent" in o.init and p is None:
            out[f"{path}.parent"] = ["None"]

    walk(node, "node", 0)
    return out


def witness_from_model(I, heap: ExprHeap, node: Obj, model, cfg) -> Dict[str, Any]:
    """Concretise the initial heap under a counter-model: a nested description that the replay
    harness turns into a real tree (opaque subtrees become fresh variables)."""
    from .heap import SIGMA

    def num(t):
        try:
            v = model.eval(t, model_completion=True)
            if z3.is_rational_value(v):
                n, d = v.numerator_as_long(), v.denominator_as_long()
                return n if d == 1 else n / d
            if z3.is_int_value(v):
                return v.as_long()
            if z3.is_algebraic_value(v):
                return float(v.approx(12).as_fraction())
        except Exception:
            pass
        return None

    def boolean(t):
        try:
            return z3.is_true(model.eval(t, model_completion=True))
        except Exception:
            return False

    counter = [0]
    assign: Dict[str, Any] = {}

    def build(o):
        if isinstance(o, Gap):
            return {"gap": True, "additive": bool(o.additive), "k": num(o.addk) if o.additive else None, "below": build(o.lower)}
        g = o.ghost
        kcode = num(g["k"])
        kinds = sorted(o.kinds)
        kind = None
        for k in kinds:
            if KCODE[k] == kcode:
                kind = k
        if kind is None:
            kind = kinds[0]
        if kind == "FactorialExpression" and len(kinds) > 1:
            r0 = o.init.get("right")
            if not (isinstance(r0, Obj) and r0.kinds == frozenset(["ConstantExpression"])):
                kind = next(k for k in kinds if k != "FactorialExpression")  # WF: factorial of a literal only
        d: Dict[str, Any] = {"kind": kind, "oid": o.oid, "label": o.label}
        materialised = any(f in o.init for f in ("left", "right", "value", "identifier"))
        if kind == "ConstantExpression":
            d["value"] = num(g["cval"])
            d["isfloat"] = boolean(g["cfloat"])
            return d
        if kind == "VariableExpression":
            d["ident"] = num(g["ident"])
            d["sigma"] = num(SIGMA(g["ident"]))
            return d
        if not materialised and not heap.is_gapped(o):
            d["opaque"] = True
            d["val"] = num(g["val0"])
            d["defined"] = boolean(g["def0"])
            return d
        if kind in BINARY:
            l = heap.complete(I, o, "left")
            d["left"] = build(l) if l is not None else None
        r = heap.complete(I, o, "right")
        d["right"] = build(r) if r is not None else None
        return d

    # find the top of the initial heap
    top = node
    while isinstance(top.init.get("parent"), Obj):
        top = top.init["parent"]
    root = heap.root if heap.root is not None else top
    tree = build(root)
    return {"rule": cfg[0], "rule_class": cfg[2], "options": cfg[3], "node_oid": node.oid, "tree": tree}
