"""Parallel exploration of all rule configurations; returns plain-data path reports."""
from __future__ import annotations

import multiprocessing as mp
import os
import time
from typing import Any, Dict, List

from .explore import explore
from .values import OutOfSubset

_I = None
_WANT = None


def _worker_init(repo, want, timeout_ms):
    global _I, _WANT
    from . import rulecheck

    _I = rulecheck.make_interp(repo)
    _WANT = want
    rulecheck.RuleRun.timeout_ms = timeout_ms
    rulecheck.RuleRun.want = want


def _report_to_dict(rep) -> Dict[str, Any]:
    return {
        "cfg": rep.cfg,
        "labels": rep.labels,
        "applicable": rep.applicable,
        "error": rep.error,
        "shape": rep.shape,
        "trace": rep.trace,
        "solver_time": rep.solver_time,
        "concolic": getattr(rep, "concolic", None),
        "note": getattr(rep, "note", ""),
        "obligations": [
            {
                "prop": ob.prop,
                "clause": ob.clause,
                "status": ob.verdict.status,
                "backend": ob.verdict.backend,
                "seconds": ob.verdict.seconds,
                "reason": ob.verdict.reason,
                "detail": ob.detail,
                "witness": ob.witness,
            }
            for ob in rep.obligations
        ],
    }


def _err(cfg, msg):
    return {"cfg": cfg, "error": msg, "obligations": [], "labels": [], "applicable": False, "shape": {}, "trace": [], "solver_time": 0.0}


def _run_subtree(task):
    """Explore at most `budget` paths below a prefix; hand the unexplored siblings back."""
    from . import rulecheck

    cfg_index, prefix, budget = task
    cfg = rulecheck.RULE_CONFIGS[cfg_index]
    out = []
    pending = []
    try:
        outs, pending = explore(rulecheck.RuleRun(_I, cfg), initial=[prefix], budget=budget)
        for o in outs:
            if o.error is not None:
                out.append(_err(cfg[0], f"out-of-subset: {o.error}"))
            else:
                out.append(_report_to_dict(o.result))
    except OutOfSubset as e:
        out.append(_err(cfg[0], f"out-of-subset: {e}"))
    except Exception as e:  # noqa: BLE001  engine failure on this subtree: reported, never silent
        import traceback

        out.append(_err(cfg[0], f"engine-error: {e!r} {traceback.format_exc()[-400:]}"))
    return cfg_index, out, pending


def run_all(repo="/repo", want=None, nproc=None, timeout_ms=10000, configs=None, budget=40, progress=None) -> List[Dict[str, Any]]:
    """Explore every rule configuration on a process pool.  Work is split dynamically: a worker
    explores a bounded number of paths below a decision prefix and returns the pending siblings."""
    from . import rulecheck

    nproc = nproc or min(16, os.cpu_count() or 4)
    reports: List[Dict[str, Any]] = []
    queue = [(i, [], budget) for i, cfg in enumerate(rulecheck.RULE_CONFIGS) if configs is None or cfg[0] in configs]
    ctx = mp.get_context("fork")
    inflight = []
    done = 0
    with ctx.Pool(nproc, initializer=_worker_init, initargs=(repo, want, timeout_ms)) as pool:
        while queue or inflight:
            while queue and len(inflight) < nproc * 3:
                inflight.append(pool.apply_async(_run_subtree, (queue.pop(),)))
            still = []
            progressed = False
            for r in inflight:
                if r.ready():
                    cfg_index, out, pending = r.get()
                    reports.extend(out)
                    queue.extend((cfg_index, p, budget) for p in pending)
                    done += 1
                    progressed = True
                else:
                    still.append(r)
            inflight = still
            if progress is not None and progressed and done % 50 == 0:
                progress(done, len(queue), len(reports))
            if not progressed:
                time.sleep(0.01)
    return reports
