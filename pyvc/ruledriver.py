"""Parallel exploration of all rule configurations; returns plain-data path reports."""
from __future__ import annotations

import multiprocessing as mp
import os
import time
from typing import Any, Dict, List

from .explore import explore
from .values import OutOfSubset

_I = None
_WANT = None


def _worker_init(repo, want, timeout_ms):
    global _I, _WANT
    from . import rulecheck

    _I = rulecheck.make_interp(repo)
    _WANT = want
    rulecheck.RuleRun.timeout_ms = timeout_ms
    rulecheck.RuleRun.want = want


def _report_to_dict(rep) -> Dict[str, Any]:
    return {
        "cfg": rep.cfg,
        "labels": rep.labels,
        "applicable": rep.applicable,
        "error": rep.error,
        "shape": rep.shape,
        "trace": rep.trace,
        "solver_time": rep.solver_time,
        "obligations": [
            {
                "prop": ob.prop,
                "clause": ob.clause,
                "status": ob.verdict.status,
                "backend": ob.verdict.backend,
                "seconds": ob.verdict.seconds,
                "reason": ob.verdict.reason,
                "detail": ob.detail,
                "witness": ob.witness,
            }
            for ob in rep.obligations
        ],
    }


def _run_subtree(task):
    from . import rulecheck

    cfg_index, prefix = task
    cfg = rulecheck.RULE_CONFIGS[cfg_index]
    out = []
    try:
        for o in explore(rulecheck.RuleRun(_I, cfg), initial=[prefix]):
            if o.error is not None:
                out.append({"cfg": cfg[0], "error": f"out-of-subset: {o.error}", "obligations": [], "labels": [], "applicable": False, "shape": {}, "trace": [], "solver_time": 0.0})
            else:
                out.append(_report_to_dict(o.result))
    except OutOfSubset as e:
        out.append({"cfg": cfg[0], "error": f"out-of-subset: {e}", "obligations": [], "labels": [], "applicable": False, "shape": {}, "trace": [], "solver_time": 0.0})
    return out


def run_all(repo="/repo", want=None, nproc=None, timeout_ms=10000, configs=None, frontier=24) -> List[Dict[str, Any]]:
    """Explore every rule configuration.  The first levels of each decision tree are expanded in
    the parent process; the pending subtrees are farmed out to a process pool."""
    from . import rulecheck

    nproc = nproc or min(16, os.cpu_count() or 4)
    _worker_init(repo, want, timeout_ms)
    tasks = []
    reports: List[Dict[str, Any]] = []
    for i, cfg in enumerate(rulecheck.RULE_CONFIGS):
        if configs is not None and cfg[0] not in configs:
            continue
        outs, pending = explore(rulecheck.RuleRun(_I, cfg), stop_when_frontier=frontier)
        for o in outs:
            if o.error is not None:
                reports.append({"cfg": cfg[0], "error": f"out-of-subset: {o.error}", "obligations": [], "labels": [], "applicable": False, "shape": {}, "trace": [], "solver_time": 0.0})
            else:
                reports.append(_report_to_dict(o.result))
        tasks += [(i, p) for p in pending]
    if tasks:
        ctx = mp.get_context("fork")
        with ctx.Pool(nproc, initializer=_worker_init, initargs=(repo, want, timeout_ms)) as pool:
            for res in pool.imap_unordered(_run_subtree, tasks, chunksize=1):
                reports.extend(res)
    return reports
