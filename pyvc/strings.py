"""Symbolic strings for the tokenizer proofs: a text of unknown length with an uninterpreted
character function, its slices, and single characters.  (Array/function encoding: z3's sequence
theory was two to four orders of magnitude slower on these obligations.)"""
from __future__ import annotations

import ast
from typing import Any, List, Optional

import z3

from .values import Num, OutOfSubset, TAG_PYINT, b_and, b_not, b_or, zarith


def _same(a, b) -> bool:
    return z3.is_true(z3.simplify(a == b))


class SymText:
    def __init__(self, name="buf"):
        self.name = name
        self.n = z3.Int(f"{name}_len")
        self.ch = z3.Function(f"{name}_ch", z3.IntSort(), z3.IntSort())

    def whole(self):
        return Slice(self, z3.IntVal(0), self.n)


class SChar:
    """One character; `text`/`idx` remember where it came from (None for a free character)."""

    pure_compare = True

    def __init__(self, code, text: Optional[SymText] = None, idx=None):
        self.code, self.text, self.idx = code, text, idx

    def eq(self, I, other):
        if isinstance(other, str):
            if len(other) != 1:
                return False
            return self.code == ord(other)
        if isinstance(other, SChar):
            return self.code == other.code
        if isinstance(other, Slice):
            return z3.And(other.hi - other.lo == 1, other.text.ch(other.lo) == self.code)
        return False

    def compare(self, I, op, other, reverse):
        if isinstance(other, str) and len(other) == 1:
            o = ord(other)
        elif isinstance(other, SChar):
            o = other.code
        else:
            raise OutOfSubset("ordering of a character with a non-character")
        a, b = (o, self.code) if reverse else (self.code, o)
        if isinstance(op, ast.Lt):
            return a < b
        if isinstance(op, ast.LtE):
            return a <= b
        if isinstance(op, ast.Gt):
            return a > b
        if isinstance(op, ast.GtE):
            return a >= b
        raise OutOfSubset("comparison")

    def to_str(self, I):
        return self

    def length(self, I):
        return 1

    def truth(self, I):
        return True

    def concat(self, I, other, reverse):
        if isinstance(other, str) and other == "":
            return self.as_slice()
        if isinstance(other, Slice):
            return other.concat(I, self, not reverse)
        raise OutOfSubset("concatenation with a character")

    def as_slice(self):
        if self.text is None:
            raise OutOfSubset("free character used as a string")
        return Slice(self.text, self.idx, self.idx + 1)

    def contained_in(self, I, container):
        return self.as_slice().contained_in(I, container)

    def __repr__(self):
        return f"<char {self.text.name if self.text else '?'}[{self.idx}]>"


class Repeat:
    """Result of a summarised loop `for c in <slice>: tokens.append(<token built from c>)`:
    one copy of the template per character of the slice, in order."""

    def __init__(self, over: "Slice", template: List[Any], index):
        self.over, self.template, self.index = over, template, index

    def __repr__(self):
        return f"<repeat {self.template} for each char of {self.over}>"


class CaseView:
    """s.lower() / s.upper() of a slice: same length, characters case-mapped."""

    pure_compare = True

    def __init__(self, base: "Slice", how: str):
        self.base, self.how = base, how

    def _map(self, c):
        if self.how == "lower":
            return z3.If(z3.And(c >= 65, c <= 90), c + 32, c)
        return z3.If(z3.And(c >= 97, c <= 122), c - 32, c)

    def eq(self, I, other):
        if isinstance(other, str):
            b = self.base
            conj = [b.hi - b.lo == len(other)] + [self._map(b.text.ch(b.lo + k)) == ord(c) for k, c in enumerate(other)]
            return z3.And(conj)
        raise OutOfSubset("comparison of a case-mapped string")

    def contained_in(self, I, container):
        from .values import DictObj, ListObj

        keys = list(container.items) if isinstance(container, (DictObj, ListObj)) else None
        if keys is None:
            raise OutOfSubset("membership of a symbolic string")
        r = False
        for k in keys:
            r = b_or(r, self.eq(I, k))
        return r

    def length(self, I):
        return self.base.length(I)

    def to_str(self, I):
        return self


class Slice:
    """text[lo:hi] with 0 <= lo <= hi <= len (maintained by construction)."""

    pure_compare = True

    def for_loop(self, I, st, env):
        """Summary of a loop over the characters whose body only appends to lists objects built from
        the current character (no loop-carried state): executed once for a generic position."""
        from .values import BreakEx, ContinueEx, ListObj, Obj, ReturnEx

        if st.orelse:
            raise OutOfSubset("for/else over a symbolic string")
        if not I.ps._check(self.hi > self.lo):
            return None  # empty: the body never runs
        j = I.ps.fresh("pos", "Int")
        saved_pc = len(I.ps.pc)
        I.ps.assume(z3.And(j >= self.lo, j < self.hi))
        c = SChar(self.text.ch(j), self.text, j)
        lists = {}
        for name, v in _reachable_lists(env):
            lists[id(v)] = (v, len(v.items))
        w0 = len(I.ps.writes)
        I.assign_target(st.target, c, env)
        try:
            I.exec_block(st.body, env)
        except (BreakEx, ContinueEx, ReturnEx):
            raise OutOfSubset("break/continue/return inside a loop over a symbolic string")
        appended = []
        for lid, (lst, n0) in lists.items():
            if len(lst.items) < n0:
                raise OutOfSubset("loop body removes list elements")
            if len(lst.items) > n0:
                new = lst.items[n0:]
                del lst.items[n0:]
                lst.items.append(Repeat(self, new, j))
                appended.append(lst)
        for o, f, old, new in I.ps.writes[w0:]:
            if isinstance(o, Obj) and not o.fresh:
                raise OutOfSubset("loop body over a symbolic string writes to shared state")
        return None

    def __init__(self, text: SymText, lo, hi):
        self.text, self.lo, self.hi = text, z3.simplify(lo), z3.simplify(hi)

    def length(self, I):
        return Num(z3.simplify(self.hi - self.lo), TAG_PYINT)

    def truth(self, I):
        return I.ps.decide(self.hi > self.lo, "nonempty")

    def to_str(self, I):
        return self

    def getitem(self, I, idx):
        i = zarith(idx)
        pos = z3.simplify(z3.If(i >= 0, self.lo + i, self.hi + i))
        inside = z3.And(pos >= self.lo, pos < self.hi)
        if not I.ps.decide(inside, "index-in-range"):
            I.raise_("IndexError", "string index out of range", implicit=True, site="str[]")
        return SChar(self.text.ch(pos), self.text, pos)

    def getslice(self, I, lo, hi):
        ln = self.hi - self.lo

        def clip(x):
            # python clips slice bounds: beyond the end -> the end, negative counts from the end (not below 0)
            a = zarith(x)
            return z3.If(a >= 0, z3.If(a <= ln, self.lo + a, self.hi), z3.If(-a <= ln, self.hi + a, self.lo))

        start = self.lo if lo is None else clip(lo)
        stop = self.hi if hi is None else clip(hi)
        if lo is None and hi is None:
            return self
        if hi is not None:
            # an empty slice when the bounds cross
            stop = z3.If(stop >= start, stop, start)
        return Slice(self.text, start, stop)

    def to_list(self, I):
        return self  # list(s): the same sequence of characters

    def eq(self, I, other):
        if isinstance(other, str):
            conj = [self.hi - self.lo == len(other)]
            for k, c in enumerate(other):
                conj.append(self.text.ch(self.lo + k) == ord(c))
            return z3.And(conj)
        if isinstance(other, Slice) and other.text is self.text:
            if _same(self.lo, other.lo) and _same(self.hi, other.hi):
                return True
        raise OutOfSubset("general string equality")

    def contained_in(self, I, container):
        from .values import DictObj, ListObj

        keys = list(container.items) if isinstance(container, (DictObj, ListObj)) else None
        if keys is None:
            raise OutOfSubset("membership of a symbolic string")
        r = False
        for k in keys:
            if not isinstance(k, str):
                raise OutOfSubset("non-literal key")
            r = b_or(r, self.eq(I, k))
        return r

    def concat(self, I, other, reverse):
        if reverse:
            raise OutOfSubset("prepending to a slice")
        if isinstance(other, str) and other == "":
            return self
        if isinstance(other, SChar) and other.text is self.text and _same(other.idx, self.hi):
            return Slice(self.text, self.lo, self.hi + 1)
        if isinstance(other, Slice) and other.text is self.text and _same(other.lo, self.hi):
            return Slice(self.text, self.lo, other.hi)
        raise OutOfSubset("concatenation that is not an extension of the slice")

    def is_(self, lo, hi) -> bool:
        return _same(self.lo, lo) and _same(self.hi, hi)

    def method(self, I, name, args, kw):
        if name in ("lower", "upper") and not args:
            return CaseView(self, name)
        if name == "startswith" and len(args) == 1 and isinstance(args[0], str):
            lit = args[0]
            conj = [self.hi - self.lo >= len(lit)] + [self.text.ch(self.lo + k) == ord(c) for k, c in enumerate(lit)]
            return z3.And(conj)
        raise OutOfSubset(f"str.{name} on a symbolic string")

    def __repr__(self):
        return f"<{self.text.name}[{self.lo}:{self.hi}]>"


def install_string_support(I):
    """`"" + char`, `"" + slice`: concatenation starting from the empty literal."""
    orig = I.str_concat

    def str_concat(a, b):
        if isinstance(a, str) and a == "" and isinstance(b, (SChar, Slice)):
            return b.as_slice() if isinstance(b, SChar) else b
        return orig(a, b)

    I.str_concat = str_concat


def _reachable_lists(env):
    """List objects reachable from the variables in scope (one attribute level deep)."""
    from .values import ListObj, Obj

    out = []
    seen = set()
    e = env
    while e is not None:
        for name, v in e.vars.items():
            cands = [v]
            if isinstance(v, Obj):
                cands += list(v.cur.values())
            for c in cands:
                if isinstance(c, ListObj) and id(c) not in seen:
                    seen.add(id(c))
                    out.append((name, c))
        e = e.parent
    return out
