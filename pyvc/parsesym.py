"""Run the real ExpressionParser._parse in the symbolic interpreter on a *concrete token-type
sequence* whose leaf values (constants, variable names) are symbolic.  The parser's control flow
depends on token types only, so one such run is a complete proof for every string with that
token-type sequence."""
from __future__ import annotations

from typing import Any, Dict, List, Optional, Tuple

import z3

from . import externals
from .interp import Interp, PathState
from .values import NAN, TAG_PYINT, IdStr, ListObj, Num, Obj, OutOfSubset, PyRaise

# token classes of the reference grammar (names as in TOKEN_TYPES)
TOKEN_NAMES = ["Constant", "Variable", "Plus", "Minus", "Multiply", "Divide", "Exponent", "Factorial", "OpenParen", "CloseParen", "Function", "Equal"]
TOKEN_TEXT = {"Plus": "+", "Minus": "-", "Multiply": "*", "Divide": "/", "Exponent": "^", "Factorial": "!", "OpenParen": "(", "CloseParen": ")", "Function": "sgn", "Equal": "="}


class NumStr:
    """Text of a numeric literal (a maximal digit/dot run) that denotes the non-negative number n."""

    def __init__(self, n: Num, malformed=False):
        self.n = n
        self.malformed = malformed

    def to_str(self, I):
        return self

    def concat(self, I, other, reverse):
        return I.fresh_str([self, other])


def make_interp(repo) -> Interp:
    I = Interp(repo)
    externals.install(I)
    I.load_module("mathy_core.parser")

    def c_coerce(I2, args, kw, fv):
        (v,) = args
        if isinstance(v, NumStr):
            if v.malformed:
                I2.raise_("ValueError", "could not convert string to float", site="coerce_to_number")
            return v.n
        if isinstance(v, str):
            try:
                return float(v) if ("e" in v or "." in v) else int(v)
            except ValueError:
                I2.raise_("ValueError", "malformed number", site="coerce_to_number")
        raise OutOfSubset("coerce_to_number of a non-literal")

    I.contracts["coerce_to_number"] = c_coerce
    return I


def token_objs(I: Interp, types: List[str], tt: Dict[str, int], tag_int: Optional[bool] = None) -> Tuple[ListObj, Dict[int, Any]]:
    """Token list (with EOF) for a token-type sequence; leaf values are fresh symbols."""
    toks = []
    leaves: Dict[int, Any] = {}
    for i, t in enumerate(types):
        o = I.new_obj(["Token"], label=f"tok{i}")
        o.cur["type"] = tt[t]
        if t == "Constant":
            v = z3.Real(f"c{i}")
            isfloat = z3.Bool(f"c{i}_isfloat") if tag_int is None else (not tag_int)
            I.ps.assume(v >= 0)
            if isinstance(isfloat, bool):
                if not isfloat:
                    I.ps.assume(z3.IsInt(v))
            else:
                I.ps.assume(z3.Implies(z3.Not(isfloat), z3.IsInt(v)))
            n = Num(v, (isfloat, False))
            o.cur["value"] = NumStr(n)
            leaves[i] = n
        elif t == "Variable":
            code = z3.Int(f"v{i}")
            I.ps.assume(z3.And(code > 0, code < 1000))
            o.cur["value"] = IdStr(code)
            leaves[i] = IdStr(code)
        else:
            o.cur["value"] = TOKEN_TEXT[t]
        toks.append(o)
    eof = I.new_obj(["Token"], label="eof")
    eof.cur["type"] = tt["EOF"]
    eof.cur["value"] = ""
    toks.append(eof)
    return ListObj(toks), leaves


def token_types(I: Interp) -> Dict[str, int]:
    ci = I.classes["TOKEN_TYPES"]
    return {k: v for k, v in ci.attrs.items() if isinstance(v, int)}


def run_parse(I: Interp, ps: PathState, types: List[str], tag_int=None):
    """Returns ('tree', root Obj, leaves) or ('raise', exception class name, leaves)."""
    I.ps = ps
    I.call_depth = 0
    I.classes["BinaryTreeNode"].attrs["_idCounter"] = 0
    tt = token_types(I)
    toks, leaves = token_objs(I, types, tt, tag_int)
    parser = I.instantiate(I.classes["ExpressionParser"], [], {})
    try:
        root = I.call_method(parser, "_parse", [toks], {})
    except PyRaise as pr:
        return "raise", pr, leaves
    return "tree", root, leaves
