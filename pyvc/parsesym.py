"""Run the real ExpressionParser._parse in the symbolic interpreter on a *concrete token-type
sequence* whose leaf values (constants, variable names) are symbolic.  The parser's control flow
depends on token types only, so one such run is a complete proof for every string with that
token-type sequence."""
from __future__ import annotations

from typing import Any, Dict, List, Optional, Tuple

import z3

from . import externals
from .interp import Interp, PathState
from .values import NAN, TAG_PYINT, IdStr, ListObj, Num, Obj, OutOfSubset, PyRaise, zbool, zreal

# token classes of the reference grammar (names as in TOKEN_TYPES)
TOKEN_NAMES = ["Constant", "Variable", "Plus", "Minus", "Multiply", "Divide", "Exponent", "Factorial", "OpenParen", "CloseParen", "Function", "Equal"]
TOKEN_TEXT = {"Plus": "+", "Minus": "-", "Multiply": "*", "Divide": "/", "Exponent": "^", "Factorial": "!", "OpenParen": "(", "CloseParen": ")", "Function": "sgn", "Equal": "="}


class NumStr:
    """Text of a numeric literal (a maximal digit/dot run) that denotes the non-negative number n."""

    nonempty = True  # a digit/dot run has at least one character

    def __init__(self, n: Num, malformed=False):
        self.n = n
        self.malformed = malformed

    def to_str(self, I):
        return self

    def concat(self, I, other, reverse):
        return I.fresh_str([self, other])

    def contains(self, I, item):
        # `"." in text` / `"e" in text` on a digit/dot run
        if item == ".":
            return self.n.tag[0]  # the literal has a dot exactly when it denotes a float
        if isinstance(item, str) and item and all(c not in "0123456789." for c in item):
            return False
        raise OutOfSubset(f"substring test {item!r} on a numeric literal")


def make_interp(repo) -> Interp:
    I = Interp(repo)
    externals.install(I)
    I.load_module("mathy_core.parser")

    def c_coerce(I2, args, kw, fv):
        (v,) = args
        if isinstance(v, NumStr):
            if v.malformed:
                I2.raise_("ValueError", "could not convert string to float", site="coerce_to_number")
            return v.n
        if isinstance(v, str):
            try:
                return float(v) if ("e" in v or "." in v) else int(v)
            except ValueError:
                I2.raise_("ValueError", "malformed number", site="coerce_to_number")
        raise OutOfSubset("coerce_to_number of a non-literal")

    # the real coerce_to_number is executed; int() / float() of the literal text are the assumed parts
    def py_int(I2, args, kw):
        (v,) = args
        if isinstance(v, NumStr):
            if v.malformed or I2.truth(zbool(v.n.tag[0]), "literal-has-dot"):
                I2.raise_("ValueError", "invalid literal for int()", site="int(text)")
            return Num(v.n.v, (False, False))
        raise OutOfSubset("int() of a non-literal")

    def py_float(I2, args, kw):
        (v,) = args
        if isinstance(v, NumStr):
            if v.malformed:
                I2.raise_("ValueError", "could not convert string to float", site="float(text)")
            # correctly rounded: exact for literals with a dot as far as the real model goes, but an
            # INTEGER literal that goes through float loses exactness beyond 2^53
            return Num(zreal(v.n), (True, False), rounded=not (v.n.tag[0] is True))
        raise OutOfSubset("float() of a non-literal")

    I.external["py.int"] = py_int
    I.external["py.float"] = py_float
    # in the enumeration coerce_to_number is used through its contract (proved by prove_coerce below)
    I.contracts["coerce_to_number"] = c_coerce
    return I


def prove_coerce(I: Interp):
    """coerce_to_number against its contract: a literal without a dot gives the exact Python int, one
    with a dot the float; it never goes through a float for an integer literal; malformed -> ValueError."""
    from .explore import explore, prove

    saved = I.contracts.pop("coerce_to_number", None)
    out = []

    def path(ps):
        I.ps = ps
        I.call_depth = 0
        mal = ps.choose(2, "malformed") == 1
        v = z3.Real("lit")
        isf = z3.Bool("lit_has_dot")
        ps.assume(v >= 0)
        ps.assume(z3.Implies(z3.Not(isf), z3.IsInt(v)))
        lit = NumStr(Num(v, (isf, False)), malformed=mal)
        f = I.get_func("mathy_core.tokenizer", "coerce_to_number")
        try:
            r = I.call_function(f, [lit], {}, use_contract=False)
        except PyRaise as pr:
            ok = pr.exc.clsname == "ValueError" and (mal or prove(ps.pc, [], isf, timeout_ms=3000).status != "refuted" and False)
            return [{"clause": "coerce_to_number/raises-ValueError-only-for-a-malformed-literal", "ok": bool(pr.exc.clsname == "ValueError" and mal), "detail": f"{pr.exc.clsname} at {pr.site}"}]
        if mal:
            return [{"clause": "coerce_to_number/malformed-literal-raises-ValueError", "ok": False, "detail": f"returned {r!r}"}]
        res = []
        okv = isinstance(r, Num) and prove(ps.pc, [], zreal(r) == v, timeout_ms=3000).status == "proved"
        res.append({"clause": "coerce_to_number/value-is-the-literal", "ok": okv, "detail": repr(r)})
        if isinstance(r, Num):
            okt = prove(ps.pc, [], zbool(r.tag[0]) == isf, timeout_ms=3000).status == "proved"
            res.append({"clause": "coerce_to_number/int-without-dot-float-with-dot", "ok": okt, "detail": f"tag {r.tag}"})
            isint = prove(ps.pc, [], z3.Not(isf), timeout_ms=3000).status == "proved"
            if isint:
                res.append({"clause": "coerce_to_number/integer-literal-never-goes-through-float", "ok": not getattr(r, "rounded", False), "detail": "int(float(text)) is inexact beyond 2^53"})
        return res

    try:
        for o in explore(path):
            if o.error is not None:
                out.append({"clause": "coerce_to_number/in-subset", "ok": False, "detail": f"out-of-subset: {o.error}", "undecided": True})
            else:
                out += o.result
    finally:
        if saved is not None:
            I.contracts["coerce_to_number"] = saved
    return out


def token_objs(I: Interp, types: List[str], tt: Dict[str, int], tag_int: Optional[bool] = None) -> Tuple[ListObj, Dict[int, Any]]:
    """Token list (with EOF) for a token-type sequence; leaf values are fresh symbols."""
    toks = []
    leaves: Dict[int, Any] = {}
    for i, t in enumerate(types):
        o = I.new_obj(["Token"], label=f"tok{i}")
        o.cur["type"] = tt[t]
        if t == "Constant":
            v = z3.Real(f"c{i}")
            isfloat = z3.Bool(f"c{i}_isfloat") if tag_int is None else (not tag_int)
            I.ps.assume(v >= 0)
            if isinstance(isfloat, bool):
                if not isfloat:
                    I.ps.assume(z3.IsInt(v))
            else:
                I.ps.assume(z3.Implies(z3.Not(isfloat), z3.IsInt(v)))
            n = Num(v, (isfloat, False))
            o.cur["value"] = NumStr(n)
            leaves[i] = n
        elif t == "Variable":
            code = z3.Int(f"v{i}")
            I.ps.assume(z3.And(code > 0, code < 1000))
            o.cur["value"] = IdStr(code)
            leaves[i] = IdStr(code)
        else:
            o.cur["value"] = TOKEN_TEXT[t]
        toks.append(o)
    eof = I.new_obj(["Token"], label="eof")
    eof.cur["type"] = tt["EOF"]
    eof.cur["value"] = ""
    toks.append(eof)
    return ListObj(toks), leaves


def token_types(I: Interp) -> Dict[str, int]:
    ci = I.classes["TOKEN_TYPES"]
    return {k: v for k, v in ci.attrs.items() if isinstance(v, int)}


def run_parse(I: Interp, ps: PathState, types: List[str], tag_int=None):
    """Returns ('tree', root Obj, leaves) or ('raise', exception class name, leaves)."""
    I.ps = ps
    I.call_depth = 0
    I.classes["BinaryTreeNode"].attrs["_idCounter"] = 0
    tt = token_types(I)
    toks, leaves = token_objs(I, types, tt, tag_int)
    parser = I.instantiate(I.classes["ExpressionParser"], [], {})
    try:
        root = I.call_method(parser, "_parse", [toks], {})
    except PyRaise as pr:
        return "raise", pr, leaves
    return "tree", root, leaves
