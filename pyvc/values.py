"""Value model of the pyvc symbolic executor.

Concrete Python values (None, bool, int, float, str, tuple) are used as they are.
Everything symbolic is one of the classes below or a raw z3 BoolRef.
"""
from __future__ import annotations

import itertools
from fractions import Fraction
from typing import Any, Dict, List, Optional

import z3


# --------------------------------------------------------------------------- control flow
class PyRaise(Exception):
    """An exception raised by the program under verification."""

    def __init__(self, exc: "Obj", implicit: bool = False, site: str = ""):
        super().__init__(exc.clsname if hasattr(exc, "clsname") else str(exc))
        self.exc = exc
        self.implicit = implicit  # raised by the runtime (None attribute, index...) not by `raise`
        self.site = site


class PathAbort(Exception):
    """The current path is infeasible (or cut by an assume)."""


class OutOfSubset(Exception):
    """Construct outside the supported subset: the function is not verified."""


class ReturnEx(Exception):
    def __init__(self, value):
        self.value = value


class BreakEx(Exception):
    pass


class ContinueEx(Exception):
    pass


# --------------------------------------------------------------------------- numbers
class NaNVal:
    _inst = None

    def __new__(cls):
        if cls._inst is None:
            cls._inst = object.__new__(cls)
        return cls._inst

    def __repr__(self):
        return "NaN"


NAN = NaNVal()


class InfVal:
    """A float infinity of either sign (numpy: non-zero / 0).  Distinct from NaN; any further
    arithmetic on it is outside the supported subset."""

    _inst = None

    def __new__(cls):
        if cls._inst is None:
            cls._inst = object.__new__(cls)
        return cls._inst

    def __repr__(self):
        return "inf"


INF = InfVal()

# number type tag = (isfloat, isnp); each a python bool or z3 BoolRef
TAG_PYINT = (False, False)
TAG_PYFLOAT = (True, False)
TAG_NPINT = (False, True)
TAG_NPFLOAT = (True, True)


class Num:
    """Symbolic number: z3 arithmetic term + python-level type tag."""

    __slots__ = ("v", "tag", "rounded")

    def __init__(self, v, tag=None, rounded=False):
        self.v = v
        self.rounded = rounded  # the value went through a float conversion of a literal
        if tag is None:
            tag = TAG_PYINT if z3.is_int(v) else TAG_PYFLOAT
        self.tag = tag

    def __repr__(self):
        return f"Num({self.v})"


def is_number(x) -> bool:
    return isinstance(x, (int, float, Fraction, Num)) and not isinstance(x, bool) or x is NAN


def zreal(x):
    """z3 Real term for a number value."""
    if isinstance(x, Num):
        return z3.ToReal(x.v) if z3.is_int(x.v) else x.v
    if isinstance(x, bool):
        return z3.RealVal(int(x))
    if isinstance(x, int):
        return z3.RealVal(x)
    if isinstance(x, float):
        return z3.RealVal(str(Fraction(x)))
    if isinstance(x, Fraction):
        return z3.RealVal(str(x))
    raise TypeError(f"not a number: {x!r}")


def zarith(x):
    """z3 term keeping Int sort where possible."""
    if isinstance(x, Num):
        return x.v
    if isinstance(x, bool):
        return z3.IntVal(int(x))
    if isinstance(x, int):
        return z3.IntVal(x)
    return zreal(x)


def tag_of(x):
    if isinstance(x, Num):
        return x.tag
    if isinstance(x, (bool, int)):
        return TAG_PYINT
    return TAG_PYFLOAT


def b_or(a, b):
    if a is True or b is True:
        return True
    if a is False:
        return b
    if b is False:
        return a
    return z3.Or(a, b)


def b_and(a, b):
    if a is False or b is False:
        return False
    if a is True:
        return b
    if b is True:
        return a
    return z3.And(a, b)


def b_not(a):
    if a is True:
        return False
    if a is False:
        return True
    return z3.Not(a)


def zbool(b):
    if isinstance(b, bool):
        return z3.BoolVal(b)
    return b


# --------------------------------------------------------------------------- strings
class IdStr:
    """Opaque non-empty string compared by equality only (identifiers, node ids)."""

    __slots__ = ("code",)

    def __init__(self, code):
        self.code = code  # z3 Int

    def __repr__(self):
        return f"IdStr({self.code})"


class OpaqueStr:
    """A string whose content is dropped by the extraction (exception message text)."""

    def __repr__(self):
        return "<opaque str>"


# --------------------------------------------------------------------------- containers
_list_ids = itertools.count()
EPOCH = [0]  # containers remember the phase they were created in (purity checks)


class ListObj:
    """Python list with identity."""

    def __init__(self, items: Optional[List[Any]] = None):
        self.items = list(items or [])
        self.lid = next(_list_ids)
        self.epoch = EPOCH[0]

    def __repr__(self):
        return f"List{self.items}"


class DictObj:
    def __init__(self, items: Optional[Dict[Any, Any]] = None):
        self.items = dict(items or {})
        self.epoch = EPOCH[0]

    def __repr__(self):
        return f"Dict{self.items}"


class SetObj:
    def __init__(self, items=None):
        self.items = list(items or [])
        self.epoch = EPOCH[0]


class SymList:
    """List of symbolic length; only len() and a generic-element predicate are known."""

    def __init__(self, length, elem_pred=None, descr=""):
        self.length = length  # z3 Int
        self.elem_pred = elem_pred  # callable(Num)->z3 Bool facts, or None
        self.descr = descr


class SymDict:
    """Dict of unknown size described by a membership predicate and a lookup function."""

    def __init__(self, mem, get, descr="", known_keys=()):
        self.mem = mem  # callable(zterm)->z3 Bool
        self.get = get  # callable(zterm)->value
        self.descr = descr
        self.known_keys = list(known_keys)  # z3 terms that may be members (used to relate len>0)


class TupleObj:
    """Instance of a NamedTuple class."""

    def __init__(self, cls, values):
        self.cls = cls
        self.values = tuple(values)

    def __repr__(self):
        return f"{self.cls.name}{self.values}"


# --------------------------------------------------------------------------- callables / classes
class ClassInfo:
    def __init__(self, name, module, bases, node=None):
        self.name = name
        self.module = module
        self.bases: List["ClassInfo"] = bases
        self.node = node
        self.methods: Dict[str, Any] = {}  # name -> FuncVal
        self.props: Dict[str, Any] = {}  # name -> FuncVal (getter)
        self.attrs: Dict[str, Any] = {}  # class-level values
        self.ann: List[str] = []  # annotated field names in order (NamedTuple / dataclass)
        self.is_namedtuple = False
        self.is_dataclass = False
        self.is_exception = False
        self._mro = None

    def mro(self) -> List["ClassInfo"]:
        if self._mro is None:
            out: List[ClassInfo] = []

            def visit(c):
                if c in out:
                    return
                out.append(c)
                for b in c.bases:
                    visit(b)

            visit(self)
            # make sure a base appears after all of its subclasses (good enough for this code base:
            # single inheritance apart from Generic/NamedTuple markers)
            self._mro = out
        return self._mro

    def is_subclass(self, other: "ClassInfo") -> bool:
        return other in self.mro()

    def lookup(self, name):
        for c in self.mro():
            if name in c.methods:
                return ("method", c.methods[name], c)
            if name in c.props:
                return ("prop", c.props[name], c)
            if name in c.attrs:
                return ("attr", c.attrs[name], c)
        return None

    def __repr__(self):
        return f"<class {self.name}>"


class FuncVal:
    def __init__(self, node, env, module, owner: Optional[ClassInfo] = None, qual: str = ""):
        self.node = node
        self.env = env
        self.module = module
        self.owner = owner
        self.qual = qual or node.name

    def __repr__(self):
        return f"<func {self.qual}>"


class BoundMethod:
    def __init__(self, self_obj, func: FuncVal):
        self.self_obj = self_obj
        self.func = func


class Builtin:
    def __init__(self, name, fn):
        self.name = name
        self.fn = fn  # fn(interp, args, kwargs)

    def __repr__(self):
        return f"<builtin {self.name}>"


class ExtModule:
    def __init__(self, name):
        self.name = name

    def __repr__(self):
        return f"<extmodule {self.name}>"


class ExtAttr:
    """Attribute path of an external module, e.g. np.power."""

    def __init__(self, path):
        self.path = path

    def __repr__(self):
        return f"<ext {self.path}>"


class Poison:
    """Module-level name whose initialiser is outside the subset."""

    def __init__(self, why):
        self.why = why


class SuperProxy:
    def __init__(self, self_obj, after: ClassInfo):
        self.self_obj = self_obj
        self.after = after


# --------------------------------------------------------------------------- heap objects
class Obj:
    """Heap object.  `kinds` is the set of possible concrete class names (singleton for objects
    created by the program).  Lazy objects stand for inputs: unread fields are materialised on
    demand by the heap policy."""

    __slots__ = ("oid", "kinds", "cur", "init", "lazy", "mirror", "ghost", "label", "fresh", "interp")

    def __init__(self, oid, kinds, lazy=False, label=""):
        self.oid = oid
        self.kinds = frozenset(kinds)
        self.cur: Dict[str, Any] = {}
        self.init: Dict[str, Any] = {}
        self.lazy = lazy
        self.mirror = None  # (session, original Obj) for clone results
        self.ghost: Dict[str, Any] = {}
        self.label = label
        self.fresh = not lazy

    @property
    def clsname(self):
        if len(self.kinds) == 1:
            return next(iter(self.kinds))
        return "{" + ",".join(sorted(self.kinds)) + "}"

    def __repr__(self):
        return f"<{self.label or 'o'}#{self.oid}:{self.clsname}>"
