"""Complete enumeration of token-type sequences up to a length bound: the real parser is executed
symbolically (symbolic leaf values) on each sequence and compared with the reference grammar."""
from __future__ import annotations

import itertools
import multiprocessing as mp
import os
import sys
import time
from typing import Any, Dict, List, Optional, Tuple

import z3

from .explore import explore, prove
from .heap import DEFPOW, FACT, POW, SIGMA
from .parsesym import TOKEN_NAMES, make_interp, run_parse
from .values import IdStr, Num, Obj, OutOfSubset, zreal
from .values import zbool as zbool_

sys.path.insert(0, os.path.dirname(os.path.dirname(os.path.abspath(__file__))))
from contracts.grammar import has_division_chain, spec_parse  # noqa: E402

PARSER_EXCEPTIONS = ("ParserException", "InvalidExpression", "OutOfTokens", "InvalidSyntax", "UnexpectedBehavior", "TrailingTokens")
_I = None
EQF = z3.Function("eqf", z3.RealSort(), z3.RealSort(), z3.RealSort())

KIND_OP = {
    "AddExpression": "+", "SubtractExpression": "-", "MultiplyExpression": "*", "DivideExpression": "/", "PowerExpression": "^", "EqualExpression": "=",
}


def _init(repo):
    global _I
    _I = make_interp(repo)


def tree_to_tuple(I, o: Obj, leaves: Dict[int, Any], seen=None, problems=None):
    """Real tree (fresh objects) -> the nested-tuple form of the reference grammar; also checks
    links / arity / sharing on the way."""
    if seen is None:
        seen = set()
    if problems is None:
        problems = []
    if id(o) in seen:
        problems.append(f"node {o} occurs twice")
        return ("shared",)
    seen.add(id(o))
    k = o.clsname
    l, r = o.cur.get("left"), o.cur.get("right")
    for c in (l, r):
        if isinstance(c, Obj) and c.cur.get("parent") is not o:
            problems.append(f"{c}.parent is not {o}")
    if k == "ConstantExpression":
        v = o.cur.get("value")
        if l is not None or r is not None:
            problems.append("constant with children")
        if isinstance(v, Num):
            if getattr(v, "rounded", False) and not (v.tag[0] is True):
                # may be an integer literal: did it go through a float?
                if not z3.is_true(z3.simplify(zbool_(v.tag[0]))):
                    problems.append("an integer literal is converted through float (inexact beyond 2^53)")
            for i, leaf in leaves.items():
                if isinstance(leaf, Num):
                    if z3.is_true(z3.simplify(zreal(v) == zreal(leaf))):
                        return ("c", i, 1)
                    if z3.is_true(z3.simplify(zreal(v) == -zreal(leaf))):
                        return ("c", i, -1)
        return ("c?", repr(v))
    if k == "VariableExpression":
        v = o.cur.get("identifier")
        if l is not None or r is not None:
            problems.append("variable with children")
        if isinstance(v, IdStr):
            for i, leaf in leaves.items():
                if isinstance(leaf, IdStr) and z3.eq(v.code, leaf.code):
                    return ("v", i)
        return ("v?", repr(v))
    if k in KIND_OP:
        if not isinstance(l, Obj) or not isinstance(r, Obj):
            problems.append(f"{k} lacks an operand")
            return (KIND_OP[k], None, None)
        return (KIND_OP[k], tree_to_tuple(I, l, leaves, seen, problems), tree_to_tuple(I, r, leaves, seen, problems))
    if k in ("NegateExpression", "FactorialExpression", "SgnExpression", "AbsExpression"):
        if o.cur.get("child_on_left") is not False or l is not None or not isinstance(r, Obj):
            problems.append(f"{k} operand on the wrong side / missing")
            return ("?",)
        tag = {"NegateExpression": "neg", "FactorialExpression": "fact", "SgnExpression": "fn", "AbsExpression": "abs"}[k]
        return (tag, tree_to_tuple(I, r, leaves, seen, problems))
    problems.append(f"unexpected node class {k}")
    return ("?",)


def to_z3(t, defs):
    """Value of a tuple tree over symbolic leaves; `defs` collects definedness side conditions."""
    tag = t[0]
    if tag == "c":
        v = z3.Real(f"c{t[1]}")
        return v if t[2] == 1 else -v
    if tag == "v":
        return SIGMA(z3.Int(f"v{t[1]}"))
    if tag == "neg":
        return -to_z3(t[1], defs)
    if tag == "fact":
        a = to_z3(t[1], defs)
        defs.append(z3.And(z3.IsInt(a), a >= 0))
        return FACT(a)
    if tag == "fn":
        a = to_z3(t[1], defs)
        return z3.If(a < 0, z3.RealVal(-1), z3.If(a > 0, z3.RealVal(1), z3.RealVal(0)))
    if tag == "abs":
        a = to_z3(t[1], defs)
        return z3.If(a >= 0, a, -a)
    a, b = to_z3(t[1], defs), to_z3(t[2], defs)
    if tag == "+":
        return a + b
    if tag == "-":
        return a - b
    if tag == "*":
        return a * b
    if tag == "/":
        defs.append(b != 0)
        return a / b
    if tag == "^":
        defs.append(DEFPOW(a, b))
        return POW(a, b)
    if tag == "=":
        return EQF(a, b)
    raise ValueError(tag)


def same_value(real_t, spec_t) -> str:
    """'same' | 'different' | 'unknown' - do the two trees denote the same function of the leaves."""
    try:
        d1, d2 = [], []
        a, b = to_z3(real_t, d1), to_z3(spec_t, d2)
    except (ValueError, IndexError, TypeError):
        return "different"
    goal = z3.Implies(z3.And(d1 + d2 + [z3.BoolVal(True)]), a == b)
    v = prove([], [], goal, timeout_ms=5000)
    return {"proved": "same", "refuted": "different"}.get(v.status, "unknown")


def check_sequence(types: Tuple[str, ...]) -> Dict[str, Any]:
    I = _I
    spec = spec_parse(list(types))
    out: Dict[str, Any] = {"seq": types, "spec_accepts": spec is not None}
    try:
        outs = explore(lambda ps: run_parse(I, ps, list(types)))
    except OutOfSubset as e:
        out["error"] = f"out-of-subset: {e}"
        return out
    if len(outs) != 1:
        out["note"] = f"{len(outs)} paths"
    verdicts = []
    for o in outs:
        if o.error is not None:
            out["error"] = f"out-of-subset: {o.error}"
            return out
        kind, val, leaves = o.result
        v: Dict[str, Any] = {"kind": kind}
        if kind == "raise":
            v["exc"] = val.exc.clsname
            v["implicit"] = bool(val.implicit)
            v["site"] = val.site
            v["agree"] = spec is None
        else:
            probs: List[str] = []
            rt = tree_to_tuple(I, val, leaves, None, probs)
            if val.cur.get("parent") is not None:
                probs.append("root has a parent")
            v["structure_problems"] = probs
            if spec is None:
                v["agree"] = False
                v["real_tree"] = repr(rt)
            elif rt == spec:
                v["agree"] = True
            else:
                sv = same_value(rt, spec)
                v["agree"] = sv == "same"
                v["value_check"] = sv
                if sv != "same":
                    v["real_tree"] = repr(rt)
                    v["spec_tree"] = repr(spec)
                    alt = spec_parse(list(types), mult_assoc="right")
                    v["is_right_fold_variant"] = bool(alt is not None and (rt == alt or same_value(rt, alt) == "same") and has_division_chain(spec))
        verdicts.append(v)
    out["verdicts"] = verdicts
    return out


def _work(chunk):
    res = []
    for seq in chunk:
        r = check_sequence(seq)
        # keep only what is needed: disagreements, problems, a few samples
        keep = "error" in r or any((not v.get("agree")) or v.get("structure_problems") or v.get("implicit") or (v["kind"] == "raise" and v["exc"] not in PARSER_EXCEPTIONS) for v in r.get("verdicts", []))
        res.append((r if keep else None, r.get("spec_accepts"), [v["kind"] if v["kind"] == "tree" else v["exc"] for v in r.get("verdicts", [])]))
    return res


def run_all(repo: str, max_len: int, nproc: int = 16) -> Dict[str, Any]:
    t0 = time.time()
    seqs = []
    for n in range(1, max_len + 1):
        seqs += list(itertools.product(TOKEN_NAMES, repeat=n))
    size = max(50, len(seqs) // (nproc * 40))
    chunks = [seqs[i : i + size] for i in range(0, len(seqs), size)]
    kept = []
    n_accept = n_reject = 0
    outcomes: Dict[str, int] = {}
    with mp.get_context("fork").Pool(nproc, initializer=_init, initargs=(repo,)) as pool:
        for res in pool.imap_unordered(_work, chunks, chunksize=1):
            for r, acc, kinds in res:
                if acc:
                    n_accept += 1
                else:
                    n_reject += 1
                for k in kinds:
                    outcomes[k] = outcomes.get(k, 0) + 1
                if r is not None:
                    kept.append(r)
    return {"max_len": max_len, "sequences": len(seqs), "spec_accepts": n_accept, "spec_rejects": n_reject, "outcomes": outcomes,
            "attention": kept, "seconds": time.time() - t0}
