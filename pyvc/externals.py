"""Assumed contracts of external functions (numpy, math, random, builtins on symbolic values).

Every entry here is an *unchecked assumption* and is listed as such in the evidence files.
"""
from __future__ import annotations

import math
from fractions import Fraction

import z3

from .heap import DEFPOW, FACT, POW
from .values import (
    INF,
    NAN,
    TAG_NPFLOAT,
    TAG_PYFLOAT,
    TAG_PYINT,
    DictObj,
    ListObj,
    Num,
    OutOfSubset,
    SymList,
    b_and,
    b_not,
    b_or,
    tag_of,
    zbool,
    zreal,
)

ASSUMPTIONS = {
    "np.power": "numpy.power on two integer-typed scalars computes in int64 (exact only below 2^63, "
    "ValueError for a negative integer exponent); otherwise the real power where defined, NaN elsewhere",
    "np.min": "numpy.min/max of a non-empty list return one of its elements (the least/greatest) as a numpy scalar",
    "np.sqrt": "numpy.sqrt returns the non-negative real root as float64, NaN for negative input (errors ignored); TypeError for a Python int outside [-2^63, 2^64)",
    "np.absolute": "numpy.absolute is |x| and returns a numpy scalar",
    "math.isnan": "math.isnan is true exactly for NaN",
    "weakref": "a weakref.WeakKeyDictionary / WeakValueDictionary behaves as a dict keyed by identity for objects that stay reachable",
    "math.isfinite": "math.isfinite is false exactly for NaN and the infinities",
    "math.copysign": "math.copysign converts to double (OverflowError for a Python int beyond 2^1024) and returns |x| with the sign of y",
    "math.factorial": "math.factorial(n) = n! for integer n >= 0, ValueError for negative n",
    "py.pow": "int ** non-negative int is the exact integer power",
    "random": "random.* return arbitrary values in their documented ranges (havoc)",
    "np.format_float_positional": "prints a finite float positionally, '-' first for negatives, digits and at most one '.'",
}

TWO63 = 2**63


def install(I):
    E = I.external

    def concrete_pow_facts(I, av, bv):
        """For NUMERAL arguments the real power is known: state where it is defined, and its value when the
        exponent is an integer (exact rational arithmetic).  True facts about pow, not assumptions."""
        a_, b_ = z3.simplify(av), z3.simplify(bv)
        if not (z3.is_rational_value(a_) and z3.is_rational_value(b_)):
            return
        from fractions import Fraction

        a = Fraction(a_.numerator_as_long(), a_.denominator_as_long())
        b = Fraction(b_.numerator_as_long(), b_.denominator_as_long())
        key = ("powfacts", str(a), str(b))
        if key in I.ps.memo:
            return
        I.ps.memo[key] = True
        if b.denominator == 1:
            defined = not (a == 0 and b < 0)
        else:
            defined = a > 0 or (a == 0 and b > 0)
        I.ps.assume(DEFPOW(av, bv) if defined else z3.Not(DEFPOW(av, bv)))
        if defined and b.denominator == 1 and abs(b) <= 4096 and (a.denominator == 1 or abs(b) <= 64):
            v = a ** int(b)
            I.ps.assume(POW(av, bv) == z3.RealVal(str(v)))
        elif defined and a in (0, 1):
            I.ps.assume(POW(av, bv) == z3.RealVal(str(a)))

    def np_power(I, args, kw):
        a, b = args
        if a is NAN or b is NAN:
            return NAN
        ta, tb = tag_of(a), tag_of(b)
        both_int = b_and(b_not(ta[0]), b_not(tb[0]))
        av, bv = zreal(a), zreal(b)
        concrete_pow_facts(I, av, bv)
        if I.truth(zbool(both_int), "np.power:ints"):
            if I.truth(bv < 0, "np.power:negexp"):
                I.raise_("ValueError", "Integers to negative integer powers are not allowed.", site="np.power")
            r = I.ps.fresh("ipow", "Real")
            p = POW(av, bv)
            I.ps.assume(z3.Implies(z3.And(p < TWO63, p >= -TWO63), r == p))
            I.ps.assume(DEFPOW(av, bv))
            return Num(r, (False, True))
        if not I.truth(DEFPOW(av, bv), "np.power:def"):
            # IEEE pow: a pole (0 to a negative power) is an infinity, a negative base with a fractional exponent NaN
            if I.truth(z3.And(av == 0, bv < 0), "np.power:pole"):
                return INF
            return NAN
        return Num(POW(av, bv), TAG_NPFLOAT)

    E["np.power"] = np_power

    def py_pow(I, args, kw):
        a, b = args
        if a is NAN or b is NAN:
            return NAN
        ta, tb = tag_of(a), tag_of(b)
        av, bv = zreal(a), zreal(b)
        concrete_pow_facts(I, av, bv)
        isnp = b_or(ta[1], tb[1])
        if I.truth(zbool(isnp), "pow:np"):
            return np_power(I, args, kw)
        both_int = b_and(b_not(ta[0]), b_not(tb[0]))
        if I.truth(zbool(both_int), "pow:ints"):
            if I.truth(bv >= 0, "pow:nonneg"):
                I.ps.assume(DEFPOW(av, bv))
                return Num(POW(av, bv), TAG_PYINT)
            if I.truth(av == 0, "pow:zero"):
                I.raise_("ZeroDivisionError", "0 to a negative power", implicit=True)
            I.ps.assume(DEFPOW(av, bv))
            return Num(POW(av, bv), TAG_PYFLOAT)
        if not I.truth(DEFPOW(av, bv), "pow:def"):
            raise OutOfSubset("float ** outside the real domain")
        return Num(POW(av, bv), TAG_PYFLOAT)

    E["py.pow"] = py_pow

    def np_minmax(is_min, numpy_result=True):
        def fn(I, args, kw):
            (xs,) = args
            if isinstance(xs, SymList):
                if not I.truth(xs.length > 0, "np.min:nonempty"):
                    I.raise_("ValueError", "min/max of an empty sequence", site="min")
                mk = ("min" if is_min else "max", numpy_result, id(xs))
                if mk in I.ps.memo:
                    return I.ps.memo[mk]
                r = I.ps.fresh("best", "Real")
                # the builtin returns the element itself (a Python number here); numpy converts it
                rn = Num(r, (I.ps.fresh("bestf", "Bool"), numpy_result))
                if xs.elem_pred is not None:
                    I.ps.assume(xs.elem_pred(I, rn))
                    # extremal among the elements known to be in the list
                    one = Num(z3.RealVal(1), (False, False))
                    isone = xs.elem_pred(I, one)
                    I.ps.assume(z3.Implies(isone, r <= 1 if is_min else r >= 1))
                I.ps.memo[mk] = rn
                return rn
            if isinstance(xs, ListObj):
                items = xs.items
                if not items:
                    I.raise_("ValueError", "zero-size array to reduction operation", site="np.min")
                import ast as _ast

                cur = items[0]
                for x in items[1:]:
                    c = I.compare(_ast.Lt() if is_min else _ast.Gt(), x, cur)
                    if I.truth(c, "np.minmax"):
                        cur = x
                if isinstance(cur, Num):
                    return Num(cur.v, (cur.tag[0], True))
                return Num(z3.RealVal(str(Fraction(cur))) if isinstance(cur, float) else z3.IntVal(cur), (isinstance(cur, float), True))
            raise OutOfSubset("np.min/max argument")

        return fn

    E["np.min"] = np_minmax(True)
    E["np.max"] = np_minmax(False)
    E["py.min"] = np_minmax(True, numpy_result=False)
    E["py.max"] = np_minmax(False, numpy_result=False)

    def np_sqrt(I, args, kw):
        (v,) = args
        if v is NAN:
            return NAN
        if isinstance(v, Num):
            t = tag_of(v)
            pyint = b_and(b_not(t[0]), b_not(t[1]))
            if not (pyint is False) and I.truth(z3.And(zbool(pyint), z3.Or(zreal(v) >= 2**64, zreal(v) < -(2**63))), "sqrt:int-beyond-64-bits"):
                I.raise_("TypeError", "loop of ufunc does not support argument 0 of type int", implicit=True, site="np.sqrt of a Python int beyond 64 bits")
            if I.truth(zreal(v) < 0, "sqrt:neg"):
                return NAN
            s = I.ps.fresh("sqrt", "Real")
            I.ps.assume(z3.And(s >= 0, s * s == zreal(v)))
            return Num(s, TAG_NPFLOAT)
        if isinstance(v, int) and not isinstance(v, bool) and (v >= 2**64 or v < -(2**63)):
            I.raise_("TypeError", "loop of ufunc does not support argument 0 of type int", implicit=True, site="np.sqrt of a Python int beyond 64 bits")
        if v < 0:
            return NAN
        return math.sqrt(v)

    E["np.sqrt"] = np_sqrt
    E["np.seterr"] = lambda I, a, k: None

    def np_absolute(I, args, kw):
        (v,) = args
        if v is NAN:
            return NAN
        if isinstance(v, Num):
            return Num(z3.If(v.v >= 0, v.v, -v.v), (v.tag[0], True))
        return Num(zreal(abs(v)) if isinstance(v, float) else z3.IntVal(abs(v)), (isinstance(v, float), True))

    E["np.absolute"] = np_absolute

    def isnan(I, args, kw):
        (v,) = args
        if v is NAN:
            return True
        if v is INF:
            return False
        if isinstance(v, Num):
            return False
        if isinstance(v, (int, Fraction)):
            return False
        if isinstance(v, float):
            return math.isnan(v)
        I.raise_("TypeError", "must be real number", implicit=True)

    E["math.isnan"] = isnan

    def isinf(I, args, kw):
        (v,) = args
        if v is INF:
            return True
        if v is NAN or isinstance(v, Num):
            return False  # reals: a number of the model is finite
        if isinstance(v, (int, Fraction)):
            return False
        if isinstance(v, float):
            return math.isinf(v)
        I.raise_("TypeError", "must be real number", implicit=True)

    E["math.isinf"] = isinf

    def isfinite(I, args, kw):
        (v,) = args
        if v is INF or v is NAN:
            return False
        if isinstance(v, Num):
            return True  # reals: a number of the model is finite
        if isinstance(v, (int, Fraction)):
            return True
        if isinstance(v, float):
            return math.isfinite(v)
        I.raise_("TypeError", "must be real number", implicit=True)

    E["math.isfinite"] = isfinite

    def weak_dict(I, args, kw):
        if args or kw:
            raise OutOfSubset("weakref dictionary from an initial mapping")
        return DictObj()  # a mapping keyed by object identity; entries never vanish while the key is reachable

    E["weakref.WeakKeyDictionary"] = weak_dict
    E["weakref.WeakValueDictionary"] = weak_dict

    def copysign(I, args, kw):
        """math.copysign(x, y): both arguments are converted to C doubles first - a Python int beyond the double
        range (|v| >= 2^1024) raises OverflowError; the result is the float |x| with the sign of y (y = 0: +)."""
        a, b = args
        for v in (a, b):
            if isinstance(v, Num):
                t = tag_of(v)
                pyint = b_and(b_not(t[0]), b_not(t[1]))
                if not (pyint is False) and I.truth(z3.And(zbool(pyint), z3.Or(zreal(v) >= 2**1024, zreal(v) <= -(2**1024))), "copysign:int-beyond-double"):
                    I.raise_("OverflowError", "int too large to convert to float", implicit=True, site="math.copysign")
            elif isinstance(v, int) and not isinstance(v, bool) and abs(v) >= 2**1024:
                I.raise_("OverflowError", "int too large to convert to float", implicit=True, site="math.copysign")
        if a is NAN or b is NAN or a is INF or b is INF:
            raise OutOfSubset("copysign of a non-finite value")
        av, bv = zreal(a), zreal(b)
        mag = z3.If(av >= 0, av, -av)
        return Num(z3.If(bv >= 0, mag, -mag), TAG_PYFLOAT)

    E["math.copysign"] = copysign

    def factorial(I, args, kw):
        (v,) = args
        if isinstance(v, int):
            if v < 0:
                I.raise_("ValueError", "factorial() not defined for negative values", site="math.factorial")
            return math.factorial(v) if v < 2000 else Num(FACT(z3.RealVal(v)), TAG_PYINT)
        if isinstance(v, Num):
            if I.truth(zreal(v) < 0, "fact:neg"):
                I.raise_("ValueError", "factorial() not defined for negative values", site="math.factorial")
            return Num(FACT(zreal(v)), TAG_PYINT)
        raise OutOfSubset("math.factorial argument")

    E["math.factorial"] = factorial

    # random: havoc with range contracts
    def randint(I, args, kw):
        a, b = args
        r = I.ps.fresh("randint", "Int")
        from .values import zarith

        I.ps.assume(z3.And(r >= zarith(a), r <= zarith(b)))
        return Num(r, TAG_PYINT)

    E["random.randint"] = randint

    def uniform(I, args, kw):
        a, b = args
        r = I.ps.fresh("uniform", "Real")
        I.ps.assume(z3.And(r >= zreal(a), r <= zreal(b)))
        return Num(r, TAG_PYFLOAT)

    E["random.uniform"] = uniform

    def rnd(I, args, kw):
        r = I.ps.fresh("random", "Real")
        I.ps.assume(z3.And(r >= 0, r < 1))
        return Num(r, TAG_PYFLOAT)

    E["random.random"] = rnd

    def randrange(I, args, kw):
        (n,) = args
        r = I.ps.fresh("randrange", "Int")
        from .values import zarith

        I.ps.assume(z3.And(r >= 0, r < zarith(n)))
        return Num(r, TAG_PYINT)

    E["random.randrange"] = randrange
