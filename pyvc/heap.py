"""Lazily initialised symbolic heap for expression trees, ghost denotations, and the contracts
(of the recursive tree functions) that the rule proofs rely on.

Input trees satisfy the well-formedness invariant WF of DESIGN.md section 2.2.  A field of an
input node that the program has not read yet does not exist in the model; reading it forks on
the cases WF allows and materialises a fresh symbolic node.
"""
from __future__ import annotations

from typing import Any, Dict, List, Optional

import z3

from .interp import ClassVal, Interp
from .values import (
    INF,
    NAN,
    TAG_PYINT,
    IdStr,
    ListObj,
    Num,
    Obj,
    OutOfSubset,
    PathAbort,
    SymList,
    b_and,
    b_or,
    zbool,
    zreal,
)

UNARY = ("NegateExpression", "FactorialExpression", "AbsExpression", "SgnExpression")
BINARY = (
    "EqualExpression",
    "AddExpression",
    "SubtractExpression",
    "MultiplyExpression",
    "DivideExpression",
    "PowerExpression",
)
LEAF = ("ConstantExpression", "VariableExpression")
ALL12 = tuple(sorted(UNARY + BINARY + LEAF))
KCODE = {k: i for i, k in enumerate(ALL12)}
NONLEAF = frozenset(UNARY + BINARY)
NOEQ = frozenset(ALL12) - {"EqualExpression"}

# uninterpreted semantics shared by all obligations
POW = z3.Function("pow", z3.RealSort(), z3.RealSort(), z3.RealSort())
DEFPOW = z3.Function("defpow", z3.RealSort(), z3.RealSort(), z3.BoolSort())
FACT = z3.Function("fact", z3.RealSort(), z3.RealSort())
SIGMA = z3.Function("sigma", z3.IntSort(), z3.RealSort())  # variable assignment by identifier code


class Gap:
    """Unmaterialised ancestor segment between `lower` (top of a materialised chain) and the child
    slot `side` of `upper`.  Its denotation is an uninterpreted function of the hole; an *additive*
    gap consists of additions only (value = hole + k)."""

    def __init__(self, heap, upper: Obj, side: str, lower: Obj, like: "Gap" = None, additive=False):
        self.upper, self.side, self.lower = upper, side, lower
        self.open = True
        if like is not None:
            # the same (unknown) ancestor segment inside a clone: same context functions
            self.ctx, self.cdef, self.hasvar = like.ctx, like.cdef, like.hasvar
            self.additive, self.addk, self.adddef, self.haskind = like.additive, like.addk, like.adddef, like.haskind
            return
        n = heap.I.ps.next_sym = heap.I.ps.next_sym + 1
        self.n = n
        self.ctx = z3.Function(f"ctx!{n}", z3.RealSort(), z3.RealSort())
        self.cdef = z3.Function(f"ctxdef!{n}", z3.RealSort(), z3.BoolSort())
        self.hasvar = z3.Function(f"ctxvar!{n}", z3.IntSort(), z3.BoolSort())
        self.additive = additive
        self.addk = z3.Real(f"ctxk!{n}")
        self.adddef = z3.Bool(f"ctxkdef!{n}")
        self.haskind = {}

    def den(self, lv, ld):
        if self.additive:
            return lv + self.addk, z3.And(ld, self.adddef)
        return self.ctx(lv), z3.And(ld, self.cdef(lv))

    def __repr__(self):
        return f"<gap {self.upper}.{self.side} ~> {self.lower}{' additive' if self.additive else ''}>"


class ExprHeap:
    def __init__(self, I: Interp, allow_np_constants=False):
        self.I = I
        I.heap = self
        self.nodes: List[Obj] = []  # all lazy/mirror expression nodes created on this path
        self.top: Optional[Obj] = None  # highest materialised ancestor of the input node without a gap above
        self.root: Optional[Obj] = None
        self.sessions = 0
        self.allow_np_constants = allow_np_constants
        self.find_type_cache: Dict[Any, Any] = {}

    # ------------------------------------------------------------------ creation
    def new_input(self, kinds=ALL12, label="n") -> Obj:
        o = self.I.new_obj(kinds, lazy=True, label=label)
        self._ghost(o)
        self.nodes.append(o)
        if self.top is None:
            self.top = o
        return o

    def _ghost(self, o: Obj):
        o.ghost = Ghost(o.oid)
        o.ghost["twins"] = [o]

    def open_gaps(self):
        out = []
        for o in self.nodes:
            gp = dict.get(o.ghost, "gap") if isinstance(o.ghost, dict) else None
            if gp is not None and gp.open and o.mirror is None:
                out.append(gp)
        return out

    def kind_domains(self):
        """Domain constraints of the kind variables (kind sets are tracked outside the solver while
        the program runs; they only shrink, so the final sets imply every earlier one)."""
        out = []
        seen = set()
        for o in self.nodes:
            g = o.ghost
            if "k" not in g or len(o.kinds) >= len(ALL12):
                continue
            k = g["k"]
            if k.get_id() in seen:
                continue
            seen.add(k.get_id())
            out.append(z3.Or([k == KCODE[x] for x in sorted(o.kinds)]))
        return out

    def on_refine(self, I, o: Obj, propagate=True):
        if propagate:
            for t in o.ghost.get("twins", ()):
                if t is not o and t.kinds != o.kinds:
                    t.kinds = o.kinds & t.kinds
                    if not t.kinds:
                        raise PathAbort()
            # WF: the operand of a factorial is a constant
            if o.kinds == frozenset(["FactorialExpression"]):
                c = o.init.get("right")
                if isinstance(c, Obj):
                    I.refine_kinds(c, ["ConstantExpression"])

    # ------------------------------------------------------------------ field protocol
    NODE_FIELDS = (
        "left",
        "right",
        "parent",
        "id",
        "value",
        "identifier",
        "child_on_left",
        "child",
        "_changed",
        "_rendering_change",
        "classes",
        "cloned_node",
        "cloned_target",
        "r_index",
    )

    def tracks(self, o, name):
        return name in ("left", "right", "parent", "value", "identifier", "child_on_left")

    def has_field(self, I, o, name):
        return name in self.NODE_FIELDS

    def read_field(self, I, o: Obj, name):
        if name not in self.NODE_FIELDS:
            I.raise_("AttributeError", f"{o.clsname}.{name}", implicit=True, site=name)
        v = self.read_init(I, o, name)
        o.cur[name] = v
        return v

    def read_init(self, I, o: Obj, name):
        """Initial (pre-state, or snapshot for clones) value of a field, materialised on demand."""
        if name in o.init:
            return o.init[name]
        if o.mirror is not None:
            v = self._mirror_read(I, o, name)
        else:
            v = self._input_read(I, o, name)
        o.init[name] = v
        return v

    # ---- payload availability by kind
    def _need_kinds(self, I, o: Obj, name, kinds):
        have = o.kinds & frozenset(kinds)
        if not have:
            I.raise_("AttributeError", f"{o.clsname}.{name}", implicit=True, site=name)
        if have != o.kinds:
            c = I.ps.choose(2, f"hasfield.{name}")
            if c == 0:
                I.refine_kinds(o, have)
            else:
                I.refine_kinds(o, o.kinds - have)
                I.raise_("AttributeError", f"{o.clsname}.{name}", implicit=True, site=name)

    def _input_read(self, I, o: Obj, name):
        g = o.ghost
        if name == "left":
            can_none = o.kinds & frozenset(UNARY + LEAF)
            can_obj = o.kinds & frozenset(BINARY)
            opts = []
            if can_obj:
                opts.append("obj")
            if can_none:
                opts.append("none")
            c = opts[I.ps.choose(len(opts), "left")]
            if c == "none":
                I.refine_kinds(o, can_none)
                return None
            I.refine_kinds(o, can_obj)
            return self._down(I, o, "left")
        if name == "right":
            can_none = o.kinds & frozenset(LEAF)
            can_obj = o.kinds & NONLEAF
            opts = []
            if can_obj:
                opts.append("obj")
            if can_none:
                opts.append("none")
            c = opts[I.ps.choose(len(opts), "right")]
            if c == "none":
                I.refine_kinds(o, can_none)
                return None
            I.refine_kinds(o, can_obj)
            return self._down(I, o, "right")
        if name == "parent":
            return self._up(I, o)
        if name == "value":
            self._need_kinds(I, o, name, ["ConstantExpression"])
            tag = (g["cfloat"], g["cnp"] if self.allow_np_constants else False)
            return Num(g["cval"], tag)
        if name == "identifier":
            self._need_kinds(I, o, name, ["VariableExpression"])
            I.ps.assume(z3.And(g["ident"] > 0, g["ident"] < 1000))
            return IdStr(g["ident"])
        if name == "id":
            I.ps.assume(g["id"] > 0)
            return IdStr(g["id"])
        if name == "child_on_left":
            self._need_kinds(I, o, name, UNARY)
            return False
        if name == "child":
            raise OutOfSubset("UnaryExpression.child (stale constructor argument) read")
        if name == "_changed":
            return g["changed"]
        if name == "_rendering_change":
            return False
        if name == "cloned_node":
            return None
        if name == "cloned_target":
            return None
        if name == "r_index":
            return None
        if name == "classes":
            raise OutOfSubset("node.classes read")
        raise OutOfSubset(f"lazy field {name}")

    def _down(self, I, o: Obj, side) -> Obj:
        """Materialise the child slot `side` of o (which may hold a gap)."""
        gp = o.ghost.get("gap")
        if gp is not None and gp.open and gp.side == side:
            return self._read_gap(I, gp)
        kinds = NOEQ
        if side == "right" and o.kinds == frozenset(["FactorialExpression"]):
            kinds = frozenset(["ConstantExpression"])
        c = self.new_input(kinds, label=f"{o.label}.{side[0]}")
        c.init["parent"] = o
        c.cur["parent"] = o
        return c

    def _close(self, gp: Gap):
        gp.open = False
        if gp.lower.ghost.get("above") is gp:
            gp.lower.ghost["above"] = None

    def _read_gap(self, I, gp: Gap) -> Obj:
        opt = I.ps.choose(3, "gap")
        lower = gp.lower
        if opt == 0:  # the slot holds the chain top directly
            I.refine_kinds(lower, lower.kinds & NOEQ)
            self._exclude_parent_kinds(I, lower, gp.upper)
            lower.init["parent"] = gp.upper
            if "parent" not in lower.cur:
                lower.cur["parent"] = gp.upper
            self._close(gp)
            return lower
        side = "left" if opt == 1 else "right"
        if gp.additive:
            kinds = frozenset(["AddExpression"])
        else:
            kinds = frozenset(BINARY) - {"EqualExpression"} if side == "left" else NONLEAF - {"EqualExpression"}
        s = self.new_input(kinds, label="anc")
        s.init["parent"] = gp.upper
        s.cur["parent"] = gp.upper
        self._exclude_parent_kinds(I, lower, s)
        ng = Gap(self, s, side, lower, additive=gp.additive)
        gp.open = False
        lower.ghost["above"] = ng
        s.ghost["gap"] = ng
        return s

    def _exclude_parent_kinds(self, I, child: Obj, parent: Obj):
        """Maximality constraint left by an ancestor-walk summary: child's parent is not of these kinds."""
        no = child.ghost.get("parent_not")
        if no:
            I.refine_kinds(parent, parent.kinds - frozenset(no))

    MAX_ANCESTORS = 5

    def _up(self, I, o: Obj):
        """Materialise the parent of a node whose parent slot is unread."""
        if self.root is o:
            return None
        self._ups = getattr(self, "_ups", 0) + 1
        if self._ups > self.MAX_ANCESTORS:
            # the program walks an unbounded ancestor chain: that needs a loop contract / summary
            raise OutOfSubset("unbounded walk over ancestors without a loop summary")
        gp = o.ghost.get("above")
        if gp is not None and not gp.open:
            gp = None
        no = frozenset(o.ghost.get("parent_not") or ())
        opts = []
        if gp is None:
            if self.root is None:
                opts.append("none")
        else:
            if gp.upper.kinds - no:
                opts.append("alias")
        can_child = o.kinds & NOEQ
        if can_child:
            opts += ["pleft", "pright"]
        c = opts[I.ps.choose(len(opts), "parent")]
        if c == "none":
            self.root = o
            return None
        I.refine_kinds(o, can_child)
        if c == "alias":
            I.refine_kinds(gp.upper, gp.upper.kinds - no)
            gp.upper.init[gp.side] = o
            if gp.side not in gp.upper.cur:
                gp.upper.cur[gp.side] = o
            self._close(gp)
            return gp.upper
        side = "left" if c == "pleft" else "right"
        kinds = frozenset(BINARY) if side == "left" else NONLEAF
        if gp is not None or self.root is not None:
            kinds = kinds - {"EqualExpression"}
        if gp is not None and gp.additive:
            kinds = frozenset(["AddExpression"])
        kinds = kinds - no
        if not kinds:
            raise PathAbort()
        p = self.new_input(kinds, label="par")
        p.init[side] = o
        p.cur[side] = o
        if gp is not None:
            gp.lower = p
            p.ghost["above"] = gp
            o.ghost["above"] = None
        if self.top is o:
            self.top = p
        return p

    # ------------------------------------------------------------------ ancestor walks
    def climb(self, I, o: Obj):
        """Follow current parent links and open gaps upward as far as they are known.
        Returns (top, via): via is the Gap or the child object through which top was entered."""
        seen = set()
        via = None
        while True:
            if id(o) in seen:
                raise OutOfSubset("parent cycle while walking to the root")
            seen.add(id(o))
            if "parent" in o.cur or "parent" in o.init:
                # (a field materialised through a clone is in init only: never written, so current)
                p = o.cur["parent"] if "parent" in o.cur else o.init["parent"]
                if p is None:
                    return o, via, True
                via, o = o, p
                continue
            if o.mirror is not None:
                return o, via, False
            gp = o.ghost.get("above")
            if gp is not None and gp.open:
                via, o = gp, gp.upper
                continue
            if o.lazy:
                return o, via, False
            return o, via, True  # program-built node without a parent field: cannot happen

    def chain_top(self, I, o: Obj):
        t, via, done = self.climb(I, o)
        return t, (via if isinstance(via, Obj) else None), done

    def declare_root(self, I, t: Obj) -> Obj:
        """t is the unread top of the input chain: decide what its root is."""
        if self.root is not None:
            return self.root
        no = frozenset(t.ghost.get("parent_not") or ())
        opts = ["self"]
        if t.kinds & NOEQ:
            opts += ["rleft", "rright"]
        c = opts[I.ps.choose(len(opts), "root")]
        if c == "self":
            t.init["parent"] = None
            t.cur["parent"] = None
            self.root = t
            return t
        I.refine_kinds(t, t.kinds & NOEQ)
        side = "left" if c == "rleft" else "right"
        kinds = frozenset(BINARY) if side == "left" else NONLEAF
        r = self.new_input(kinds, label="root")
        r.init["parent"] = None
        r.cur["parent"] = None
        self.root = r
        g = Gap(self, r, side, t)
        r.ghost["gap"] = g
        t.ghost["above"] = g
        return r

    def c_get_root(self, I, args, kwargs, f):
        (o,) = args
        t, _, done = self.climb(I, o)
        if done:
            return t
        if t.mirror is not None:
            sess, orig = t.mirror
            r = self.c_get_root(I, [orig], {}, f)
            return self.mirror_of(I, sess, r)
        return self.declare_root(I, t)

    def c_get_root_side(self, I, args, kwargs, f):
        (o,) = args
        t, via, done = self.climb(I, o)
        if not done:
            if t.mirror is not None:
                # answer in the original tree (the copy is isomorphic)
                sess, orig = t.mirror
                base = o
                while base.mirror is not None:
                    base = base.mirror[1]
                return self.c_get_root_side(I, [base], {}, f)
            self.declare_root(I, t)
            t, via, done = self.climb(I, o)
        root = t
        if isinstance(via, Gap):
            return via.side
        # root reached concretely: result.get_side(last_child) as in the code
        return I.call_method(root, "get_side", [via], {})

    def summarise_ancestor_walk(self, I, x: Obj, ci) -> Obj:
        """Summary of `while isinstance(v.parent, K): v = v.parent` started at v = x:
        the highest ancestor-or-self of x reachable through parents that are all instances of K."""
        K = I.kinds_subclassing(frozenset(ALL12), ci)
        additive_kind = K == frozenset(["AddExpression"])
        cur = x
        guard = 0
        while True:
            guard += 1
            if guard > 64:
                raise OutOfSubset("ancestor walk did not stabilise")
            if "parent" in cur.cur or "parent" in cur.init:
                p = cur.cur["parent"] if "parent" in cur.cur else cur.init["parent"]
                if isinstance(p, Obj) and I.isinstance_(p, ci) is True:
                    cur = p
                    continue
                return cur
            if cur.mirror is not None:
                raise OutOfSubset("ancestor walk inside a clone with unread parent")
            gp = cur.ghost.get("above")
            if gp is not None and gp.open and gp.additive and additive_kind:
                cur = gp.upper  # everything in between is an addition
                continue
            c = I.ps.choose(2, "walk")
            if c == 0:
                # the walk ends here: the parent (whatever it is) is not a K
                p = I.getattr(cur, "parent")
                if isinstance(p, Obj):
                    if I.isinstance_(p, ci) is not False:
                        raise PathAbort()
                return cur
            # at least one more K above: T is the highest one; between cur and T only K nodes
            if not (cur.kinds & NOEQ):
                raise PathAbort()
            I.refine_kinds(cur, cur.kinds & NOEQ)
            side = ["left", "right"][I.ps.choose(2, "walk-side")]
            tk = K & (frozenset(BINARY) if side == "left" else NONLEAF) - {"EqualExpression"}
            if not tk:
                raise PathAbort()
            t = self.new_input(tk, label="walktop")
            old = gp if (gp is not None and gp.open) else None
            g2 = Gap(self, t, side, cur, additive=additive_kind)
            t.ghost["gap"] = g2
            cur.ghost["above"] = g2
            t.ghost["parent_not"] = sorted(K)
            if old is not None:
                old.lower = t
                t.ghost["above"] = old
            if self.top is cur:
                self.top = t
            return t

    # ------------------------------------------------------------------ clone (contract semantics)
    def mirror_of(self, I, sess, orig):
        if orig is None or not isinstance(orig, Obj):
            return orig
        m = sess["map"].get(id(orig))
        if m is not None:
            return m
        m = I.new_obj(orig.kinds, lazy=True, label=orig.label + "'")
        m.fresh = True
        m.mirror = (sess, orig)
        m.ghost = MirrorGhost(orig.ghost)
        m.ghost["twins"] = orig.ghost.setdefault("twins", [orig])
        m.ghost["twins"].append(m)
        m.ghost["changed"] = False
        sess["map"][id(orig)] = m
        self.nodes.append(m)
        # fields known at snapshot time are copied now (the snapshot must not see later writes)
        for f in ("left", "right", "parent", "value", "identifier", "child_on_left", "id"):
            if f in orig.cur:
                v = orig.cur[f]
                if f == "parent" and orig is sess["top"] and not sess["from_root"]:
                    continue
                mv = self.mirror_of(I, sess, v) if isinstance(v, Obj) else v
                m.init[f] = mv
                m.cur[f] = mv
        return m

    def _mirror_read(self, I, m: Obj, name):
        sess, orig = m.mirror
        if name in ("_changed",):
            return False
        if name == "_rendering_change":
            return False
        if name in ("cloned_node", "r_index"):
            return None
        if name == "cloned_target":
            return ""
        if name == "classes":
            raise OutOfSubset("node.classes read")
        if name == "parent" and orig is sess["top"] and not sess["from_root"]:
            return None
        v = self.read_init(I, orig, name)
        if isinstance(v, Obj):
            return self.mirror_of(I, sess, v)
        return v

    def new_session(self, top, from_root):
        self.sessions += 1
        return {"n": self.sessions, "map": {}, "top": top, "from_root": from_root}

    def c_clone(self, I, args, kwargs, f=None):
        """Contract of MathExpression.clone (and its overrides): a fresh tree isomorphic to the
        receiver's subtree (same kinds, ids, payload, operand sides), parent None."""
        (o,) = args
        if not isinstance(o, Obj):
            raise OutOfSubset("clone of non-object")
        sess = self.new_session(o, False)
        m = self.mirror_of(I, sess, o)
        m.init["parent"] = None
        m.cur["parent"] = None
        if not o.lazy and o.mirror is None:
            # a node built by the program: copy its payload eagerly
            pass
        return m

    def c_clone_from_root(self, I, args, kwargs, f=None):
        o = args[0]
        node = args[1] if len(args) > 1 else kwargs.get("node")
        if node is not None and node is not o:
            raise OutOfSubset("clone_from_root(node) with node is not self")
        sess = self.new_session(o, True)
        # eager part: everything materialised and connected to o
        m = self.mirror_of(I, sess, o)
        # bookkeeping effects of the real function
        I.setattr(o, "cloned_node", None)
        I.setattr(o, "cloned_target", None)
        return m

    # ------------------------------------------------------------------ find_type / all_changed
    def c_find_type(self, I, args, kwargs, f=None):
        I.ps.memo["abstraction:find_type"] = True  # facts about opaque subtrees: a concretised witness does not carry them
        o, t = args
        if not isinstance(t, ClassVal):
            raise OutOfSubset("find_type with non-class")
        # find_type is a pure function of the tree: same tree state, same answer
        nwrites = sum(1 for w in I.ps.writes if isinstance(w[0], Obj) and w[1] in ("left", "right", "parent"))
        mk = ("find_type", id(o), t.info.name, nwrites)
        if mk in I.ps.memo:
            return I.ps.memo[mk]
        n = I.ps.fresh(f"n_{t.info.name}_{o.oid}", "Int")
        I.ps.assume(n >= 0)
        hk = self.has_kind(I, o, t.info)
        I.ps.assume((n > 0) == hk)
        I.ps.memo[mk] = SymList(n, descr=f"find_type({o},{t.info.name})")
        return I.ps.memo[mk]

    def has_kind(self, I, o: Obj, ci):
        """Ghost: does the current subtree of o contain a node of class ci (z3 Bool)."""
        yes = I.kinds_subclassing(frozenset(ALL12), ci)
        return self._has_kind(I, o, frozenset(yes), ci.name)

    def _has_kind(self, I, o, yes, tag):
        here_all = o.kinds <= yes
        here_none = not (o.kinds & yes)
        if here_all:
            return z3.BoolVal(True)
        here = (
            z3.BoolVal(False)
            if here_none
            else z3.Or([o.ghost["k"] == KCODE[k] for k in sorted(o.kinds & yes)])
        )
        parts = [here]
        opaque = True
        for side in ("left", "right"):
            if side in o.cur:
                opaque = False
                c = o.cur[side]
                if isinstance(c, Obj):
                    parts.append(self._has_kind(I, c, yes, tag))
        if opaque and not (o.kinds <= frozenset(LEAF)):
            base = o.mirror[1] if o.mirror is not None else o
            parts.append(z3.Bool(f"below_has_{tag}_{base.oid}"))
        gp = o.ghost.get("gap")
        if gp is not None and gp.open and gp.side not in o.cur:
            if gp.additive:
                parts.append(z3.BoolVal(bool(yes & frozenset(["AddExpression"]))) if False else z3.Bool(f"gap_has_{tag}_{id(gp.ctx) % 100000}"))
            else:
                parts.append(z3.Bool(f"gap_has_{tag}_{o.oid}"))
            parts.append(self._has_kind(I, gp.lower, yes, tag))
        return z3.Or(parts)

    def c_all_changed(self, I, args, kwargs, f=None):
        # modifies only `_changed` (presentation state) of the nodes below the receiver
        return None

    # ------------------------------------------------------------------ denotation
    def complete(self, I, o: Obj, side, init=True):
        """Child in slot `side` for denotation purposes, without forking: an unread slot of a node
        whose kind has that operand is filled with a ghost node."""
        d = o.init if init else o.cur
        if side in d:
            return d[side]
        if side in o.init:
            return o.init[side]
        gp = o.ghost.get("gap")
        if gp is not None and gp.open and gp.side == side:
            return gp
        key = f"ghost_{side}"
        if o.mirror is not None and key not in o.ghost:
            sess, orig = o.mirror
            oc = self.complete(I, orig, side, True)
            if isinstance(oc, Gap):
                # not cached: the lower end of an open gap moves when the chain below it grows
                return Gap(self, o, side, self.mirror_of(I, sess, oc.lower), like=oc)
        if key not in o.ghost:
            if o.mirror is not None:
                sess, orig = o.mirror
                oc = self.complete(I, orig, side, True)
                if isinstance(oc, Gap):
                    return Gap(self, o, side, self.mirror_of(I, sess, oc.lower), like=oc)
                elif oc is None:
                    o.ghost[key] = None
                else:
                    o.ghost[key] = self.mirror_of(I, sess, oc)
            else:
                g = I.new_obj(NOEQ, lazy=True, label=f"{o.label}.{side[0]}~")
                saved_top = self.top
                self._ghost(g)
                self.nodes.append(g)
                self.top = saved_top
                g.init["parent"] = o
                g.cur["parent"] = o
                g.ghost["is_ghost"] = True
                o.ghost[key] = g
        return o.ghost[key]

    def den(self, I, o, kinds, kvar, a, b):
        """(value, defined) of a node of symbolic kind applied to operand denotations a, b.
        a/b are (val, def) pairs or None."""
        cases = []
        for k in sorted(kinds):
            cases.append((k, self._den_kind(o, k, a, b)))
        if len(cases) == 1:
            return cases[0][1]
        val, df = cases[-1][1]
        for k, (v, d) in reversed(cases[:-1]):
            c = kvar == KCODE[k]
            val = z3.If(c, v, val)
            df = z3.If(c, d, df)
        return val, df

    def _den_kind(self, o, k, a, b):
        T = z3.BoolVal(True)
        if k == "ConstantExpression":
            return None  # handled by caller
        av, ad = a if a is not None else (z3.RealVal(0), T)
        bv, bd = b if b is not None else (z3.RealVal(0), T)
        if k == "AddExpression":
            return av + bv, z3.And(ad, bd)
        if k == "SubtractExpression":
            return av - bv, z3.And(ad, bd)
        if k == "MultiplyExpression":
            return av * bv, z3.And(ad, bd)
        if k == "DivideExpression":
            return av / bv, z3.And(ad, bd, bv != 0)
        if k == "PowerExpression":
            return POW(av, bv), z3.And(ad, bd, DEFPOW(av, bv))
        if k == "EqualExpression":
            # value of an equation when it holds is the common value
            return av, z3.And(ad, bd)
        if k == "NegateExpression":
            return -bv, bd
        if k == "FactorialExpression":
            return FACT(bv), z3.And(bd, z3.IsInt(bv), bv >= 0)
        if k == "AbsExpression":
            return z3.If(bv >= 0, bv, -bv), bd
        if k == "SgnExpression":
            return z3.If(bv < 0, z3.RealVal(-1), z3.If(bv > 0, z3.RealVal(1), z3.RealVal(0))), bd
        raise ValueError(k)

    def pre(self, I, x):
        """(val, def) of x in the pre-state; emits the defining axioms of materialised nodes."""
        if isinstance(x, Gap):
            lv, ld = self.pre(I, x.lower)
            return x.den(lv, ld)
        if x is None:
            return None
        base = x
        while base.mirror is not None:
            base = base.mirror[1]
        g = x.ghost
        if not x.lazy and x.mirror is None:
            raise OutOfSubset("pre-state denotation of a program-built node")
        return g["val0"], g["def0"]

    def pre_axioms(self, I):
        """Axioms linking val0/def0 of every materialised input node to its initial operands."""
        out = []
        done = set()
        work = [o for o in self.nodes if o.mirror is None and o.lazy]
        i = 0
        while i < len(work):
            o = work[i]
            i += 1
            if id(o) in done:
                continue
            done.add(id(o))
            g = o.ghost
            mat = any(f in o.init for f in ("left", "right", "value", "identifier")) or self.is_gapped(o)
            if not mat and len(o.kinds & frozenset(LEAF)) != len(o.kinds):
                continue  # opaque subtree: free val0/def0
            kinds = o.kinds
            leafk = kinds & frozenset(LEAF)
            a = b = None
            if kinds & frozenset(BINARY):
                l = self.complete(I, o, "left")
                if l is not None:
                    a = self.pre(I, l)
                    if isinstance(l, Obj) and l not in work:
                        work.append(l)
            if kinds & NONLEAF:
                r = self.complete(I, o, "right")
                if r is not None:
                    b = self.pre(I, r)
                    if isinstance(r, Obj) and r not in work:
                        work.append(r)
            conj = []
            for k in sorted(kinds):
                c = g["k"] == KCODE[k] if len(kinds) > 1 else z3.BoolVal(True)
                if k == "ConstantExpression":
                    v, d = g["cval"], z3.BoolVal(True)
                elif k == "VariableExpression":
                    v, d = SIGMA(g["ident"]), z3.BoolVal(True)
                else:
                    v, d = self._den_kind(o, k, a, b)
                conj.append(z3.Implies(c, z3.And(g["val0"] == v, g["def0"] == d)))
            out.append(z3.And(conj))
            # variables
            hv = g["hasvar"]
        return out

    def post(self, I, x, memo=None):
        """(val, def) of x in the post-state (current fields)."""
        if memo is None:
            memo = {}
        if isinstance(x, Gap):
            lv, ld = self.post(I, x.lower, memo)
            return x.den(lv, ld)
        if id(x) in memo:
            r = memo[id(x)]
            if r is None:
                raise StructureError(f"cycle through {x}")
            return r
        memo[id(x)] = None
        r = self._post(I, x, memo)
        memo[id(x)] = r
        return r

    def _post(self, I, x: Obj, memo):
        g = x.ghost
        touched = any(f in x.cur for f in ("left", "right", "value", "identifier"))
        gapped = self.is_gapped(x)
        if (x.lazy or x.mirror is not None) and not touched and not gapped:
            return g["val0"], g["def0"]
        kinds = x.kinds
        kv = g.get("k")
        a = b = None
        cases = []
        for k in sorted(kinds):
            if k == "ConstantExpression":
                v = x.cur["value"] if "value" in x.cur else self.read_init_nofork(I, x, "value")
                if v is NAN or v is INF:
                    cases.append((k, (z3.RealVal(0), z3.BoolVal(False))))
                elif v is None:
                    raise StructureError(f"constant {x} without a value")
                else:
                    cases.append((k, (zreal(v), z3.BoolVal(True))))
            elif k == "VariableExpression":
                v = x.cur["identifier"] if "identifier" in x.cur else IdStr(g["ident"])
                if not isinstance(v, IdStr):
                    if isinstance(v, str):
                        v = IdStr(I.intern_literal(v))
                    else:
                        raise StructureError(f"variable {x} with identifier {v!r}")
                cases.append((k, (SIGMA(v.code), z3.BoolVal(True))))
            else:
                if a is None and k in BINARY:
                    l = self.cur_child(I, x, "left")
                    if l is None:
                        raise StructureError(f"{k} {x} without left operand")
                    a = self.post(I, l, memo)
                if b is None:
                    r = self.cur_child(I, x, "right")
                    if r is None:
                        raise StructureError(f"{k} {x} without right operand")
                    b = self.post(I, r, memo)
                cases.append((k, self._den_kind(x, k, a, b)))
        if len(cases) == 1:
            return cases[0][1]
        val, df = cases[-1][1]
        for k, (v, d) in reversed(cases[:-1]):
            c = kv == KCODE[k]
            val = z3.If(c, v, val)
            df = z3.If(c, d, df)
        return val, df

    def is_gapped(self, x: Obj) -> bool:
        """Does x (or, for a clone, its original) have the open ancestor gap in one of its slots."""
        base = x
        while base.mirror is not None:
            base = base.mirror[1]
        gp = base.ghost.get("gap")
        return gp is not None and gp.open

    def read_init_nofork(self, I, x, name):
        g = x.ghost
        if name == "value":
            return Num(g["cval"], (g["cfloat"], False))
        raise OutOfSubset(name)

    def cur_child(self, I, x: Obj, side):
        if side in x.cur:
            return x.cur[side]
        if x.lazy or x.mirror is not None:
            return self.complete(I, x, side, init=True)
        return None

    # ------------------------------------------------------------------ variables (ghost set)
    def hasvar_pre(self, I, x, v):
        if isinstance(x, Gap):
            return z3.Or(x.hasvar(v), self.hasvar_pre(I, x.lower, v))
        if x is None:
            return z3.BoolVal(False)
        return self._hasvar(I, x, v, init=True, memo={})

    def hasvar_post(self, I, x, v):
        if isinstance(x, Gap):
            return z3.Or(x.hasvar(v), self.hasvar_post(I, x.lower, v))
        return self._hasvar(I, x, v, init=False, memo={})

    def _hasvar(self, I, x, v, init, memo):
        if isinstance(x, Gap):
            return z3.Or(x.hasvar(v), self._hasvar(I, x.lower, v, init, memo))
        if x is None:
            return z3.BoolVal(False)
        if id(x) in memo:
            r = memo[id(x)]
            if r is None:
                raise StructureError(f"cycle through {x}")
            return r
        memo[id(x)] = None
        r = self._hasvar_node(I, x, v, init, memo)
        memo[id(x)] = r
        return r

    def _hasvar_node(self, I, x, v, init, memo):
        g = x.ghost
        d = x.init if init else x.cur
        base = x
        while base.mirror is not None:
            base = base.mirror[1]
        touched = any(f in d for f in ("left", "right", "identifier"))
        gapped = self.is_gapped(x)
        if (x.lazy or x.mirror is not None) and not touched and not gapped and not (x.kinds <= frozenset(LEAF)):
            return base.ghost["hasvar"](v)
        parts = []
        for k in sorted(x.kinds):
            c = g["k"] == KCODE[k] if len(x.kinds) > 1 and "k" in g else z3.BoolVal(True)
            if k == "VariableExpression":
                ident = d.get("identifier")
                if ident is None:
                    ident = IdStr(g["ident"])
                if isinstance(ident, str):
                    ident = IdStr(I.intern_literal(ident))
                parts.append(z3.And(c, ident.code == v))
            elif k == "ConstantExpression":
                pass
            else:
                sub = []
                if k in BINARY:
                    l = d[side] if (side := "left") in d else self.cur_child(I, x, "left") if not init else self.complete(I, x, "left")
                    sub.append(self._hasvar(I, l, v, init, memo))
                r = d["right"] if "right" in d else self.cur_child(I, x, "right") if not init else self.complete(I, x, "right")
                sub.append(self._hasvar(I, r, v, init, memo))
                parts.append(z3.And(c, z3.Or(sub)))
        return z3.Or(parts) if parts else z3.BoolVal(False)


class Ghost(dict):
    """Ghost symbols of a node, created on first use."""

    _SORTS = {
        "k": ("kind", "Int"),
        "val0": ("val0", "Real"),
        "def0": ("def0", "Bool"),
        "cval": ("cval", "Real"),
        "cfloat": ("cfloat", "Bool"),
        "cnp": ("cnp", "Bool"),
        "ident": ("ident", "Int"),
        "id": ("id", "Int"),
        "changed": ("changed", "Bool"),
    }

    def __init__(self, oid):
        super().__init__()
        self.oid = oid

    def __missing__(self, key):
        if key == "hasvar":
            v = z3.Function(f"hasvar_{self.oid}", z3.IntSort(), z3.BoolSort())
        elif key in self._SORTS:
            base, sort = self._SORTS[key]
            name = f"{base}_{self.oid}"
            v = z3.Int(name) if sort == "Int" else z3.Real(name) if sort == "Real" else z3.Bool(name)
        else:
            raise KeyError(key)
        self[key] = v
        return v

    def __contains__(self, key):
        return dict.__contains__(self, key) or key in self._SORTS or key == "hasvar"

    def get(self, key, default=None):
        if dict.__contains__(self, key):
            return dict.__getitem__(self, key)
        if key in self._SORTS or key == "hasvar":
            return self[key]
        return default


class MirrorGhost(dict):
    """Ghost of a clone: same symbols as the original (isomorphic copy), own bookkeeping."""

    def __init__(self, base):
        super().__init__()
        self.base = base

    def __missing__(self, key):
        if key in ("gap", "is_ghost") or key.startswith("ghost_"):
            raise KeyError(key)
        return self.base[key]

    def __contains__(self, key):
        if dict.__contains__(self, key):
            return True
        if key in ("gap", "is_ghost") or key.startswith("ghost_"):
            return False
        return key in self.base

    def get(self, key, default=None):
        try:
            return self[key]
        except KeyError:
            return default


class StructureError(Exception):
    """The result tree is not a well-formed tree (reported as a C07 structure violation)."""
